/- Helper lemmas and proofs for JobShop. -/
import JumanjiModel.Env.JobShop.Model
import JumanjiModel.Prim.Lemmas
set_option linter.unusedVariables false
set_option linter.unusedSimpArgs false
namespace JobShop
open Jm

/-! ### lists -/
theorem getD_map_range {α} (n : Nat) (f : Nat → α) (d : α) {m : Nat} (h : m < n) :
    ((List.range n).map f).getD m d = f m := by
  simp [List.getD_eq_getElem?_getD, h]

theorem at2_map_range {α} (n p : Nat) (f : Nat → Nat → α) (d : α) {j k : Nat} (hj : j < n) (hk : k < p) :
    at2 ((List.range n).map fun j => (List.range p).map fun k => f j k) d j k = f j k := by
  unfold at2
  rw [getD_map_range n _ _ hj, getD_map_range p _ _ hk]

/-- `argmaxAux` over 0/1 values -/
theorem argmaxAux_bool (xs : List Bool) (i best : Nat) (bv : Int) (hbv : bv = 0 ∨ bv = 1) :
    Jx.argmaxAux (xs.map fun b => if b then (1:Int) else 0) i best bv =
      if bv = 0 ∧ xs.any id = true then i + xs.idxOf true else best := by
  induction xs generalizing i best bv with
  | nil => simp [Jx.argmaxAux]
  | cons x xs ih =>
    cases x
    · simp only [List.map_cons, Jx.argmaxAux]
      have : ¬ ((0:Int) > bv) := by omega
      simp only [Bool.false_eq_true, if_false, this]
      rw [ih (i+1) best bv hbv]
      simp [List.idxOf_cons]
      split <;> simp_all <;> omega
    · simp only [List.map_cons, Jx.argmaxAux, if_true]
      rcases hbv with h | h
      · subst h
        simp only [show ((1:Int) > 0) from by omega, if_true]
        rw [ih (i+1) i 1 (Or.inr rfl)]
        simp
      · subst h
        simp only [show ¬ ((1:Int) > 1) from by omega, if_false]
        rw [ih (i+1) best 1 (Or.inr rfl)]
        simp

theorem argmaxBool_eq (xs : List Bool) :
    Jx.argmaxBool xs = if xs.any id = true then xs.idxOf true else 0 := by
  unfold Jx.argmaxBool Jx.argmax
  cases xs with
  | nil => simp
  | cons x xs =>
    simp only [List.map_cons]
    rw [argmaxAux_bool xs 1 0 _ (by cases x <;> simp)]
    cases x <;> simp [List.idxOf_cons]
    split <;> omega

theorem idxOf_true_spec (row : List Bool) (h : row.any id = true) :
    row.idxOf true < row.length ∧ row.getD (row.idxOf true) false = true ∧
    ∀ k', k' < row.idxOf true → row.getD k' false = false := by
  induction row with
  | nil => simp at h
  | cons x xs ih =>
    cases x
    · have h' : xs.any id = true := by simpa using h
      obtain ⟨h1, h2, h3⟩ := ih h'
      have e : (false :: xs).idxOf true = xs.idxOf true + 1 := by simp [List.idxOf_cons]
      rw [e]
      refine ⟨by simp; omega, by simpa using h2, ?_⟩
      intro k' hk'
      cases k' with
      | zero => simp
      | succ k' => simpa using h3 k' (by omega)
    · simp [List.idxOf_cons]

theorem any_getD (row : List Bool) : row.any id = true ↔ ∃ k, k < row.length ∧ row.getD k false = true := by
  constructor
  · intro h
    exact ⟨_, (idxOf_true_spec row h).1, (idxOf_true_spec row h).2.1⟩
  · rintro ⟨k, hk, h⟩
    rw [List.any_eq_true]
    refine ⟨true, ?_, rfl⟩
    have : row[k]? = some true := by
      simp [List.getD_eq_getElem?_getD, List.getElem?_eq_getElem hk] at h
      simp [List.getElem?_eq_getElem hk, h]
    exact List.mem_of_getElem? this

def nextOf (s : State) (j : Nat) : Nat := (opIds s.opsMask).getD j 0

theorem nextOf_eq (s : State) (j : Nat) : nextOf s j = Jx.argmaxBool (s.opsMask.getD j []) := by
  unfold nextOf opIds
  simp only [List.getD_eq_getElem?_getD, List.getElem?_map]
  cases s.opsMask[j]? <;> simp [Jx.argmaxBool, Jx.argmax]


/-! ### the next op of a job -/

theorem maskAt_eq (s : State) (j k : Nat) : s.maskAt j k = (s.opsMask.getD j []).getD k false := rfl

/-- `argmax` of the `ops_mask` row is the first remaining op, when one remains -/
theorem nextOf_spec (cfg : Cfg) (s : State) (hS : Shaped cfg s) {j : Nat} (hj : j < cfg.J)
    (h : ∃ k, k < cfg.O ∧ s.maskAt j k = true) :
    nextOf s j < cfg.O ∧ s.maskAt j (nextOf s j) = true ∧ ∀ k', k' < nextOf s j → s.maskAt j k' = false := by
  have hlen : (s.opsMask.getD j []).length = cfg.O := (hS.2.2.2.2.1 j hj).2.2.1
  have hany : (s.opsMask.getD j []).any id = true := by
    rw [any_getD]; obtain ⟨k, hk, hm⟩ := h; exact ⟨k, by omega, hm⟩
  have := idxOf_true_spec _ hany
  rw [nextOf_eq, argmaxBool_eq, if_pos hany]
  simp only [maskAt_eq]
  exact ⟨by omega, this.2.1, this.2.2⟩

theorem isNextOp_unique (cfg : Cfg) (s : State) {j k k' : Nat} (h : isNextOp cfg s j k)
    (h' : isNextOp cfg s j k') : k = k' := by
  obtain ⟨h1, h2, h3, h4⟩ := h
  obtain ⟨h1', h2', h3', h4'⟩ := h'
  by_cases hlt : k < k'
  · exact absurd ⟨h2, h3⟩ (h4' k hlt)
  · by_cases hgt : k' < k
    · exact absurd ⟨h2', h3'⟩ (h4 k' hgt)
    · omega

/-- under `MaskOK` the argmax op is the next op in the sense of the rules -/
theorem nextOf_isNextOp (cfg : Cfg) (s : State) (hS : Shaped cfg s) (hM : MaskOK cfg s) {j : Nat}
    (hj : j < cfg.J) (h : ∃ k, k < cfg.O ∧ s.maskAt j k = true) : isNextOp cfg s j (nextOf s j) := by
  obtain ⟨h1, h2, h3⟩ := nextOf_spec cfg s hS hj h
  have := (hM j hj _ h1).1 h2
  refine ⟨h1, this.1, this.2, ?_⟩
  intro k' hk' hc
  have := (hM j hj k' (by omega)).2 hc
  rw [h3 k' hk'] at this
  exact Bool.noConfusion this

theorem isNextOp_mask (cfg : Cfg) (s : State) (hM : MaskOK cfg s) {j k : Nat} (hj : j < cfg.J)
    (h : isNextOp cfg s j k) : k < cfg.O ∧ s.maskAt j k = true :=
  ⟨h.1, (hM j hj k h.1).2 ⟨h.2.1, h.2.2.1⟩⟩

/-! ### the machine fields versus the schedule -/

theorem busy_iff (cfg : Cfg) (s : State) (hB : Bookkeeping cfg s) {m : Nat} (hm : m < cfg.M) :
    machineBusy cfg s m ↔ 0 < s.remAt m := by
  obtain ⟨h0, hU, hA⟩ := hB.2 m hm
  constructor
  · rintro ⟨j, hj, k, hk, ⟨hs, hrun⟩, hmid⟩
    have := hU j hj k hk hs hmid
    omega
  · intro h
    obtain ⟨j, hj, k, hk, hs, hmid, _, he⟩ := hA h
    exact ⟨j, hj, k, hk, ⟨hs, by omega⟩, hmid⟩

theorem jobRunning_iff (cfg : Cfg) (s : State) (hI : Inv cfg s) {j : Nat} (hj : j < cfg.J) :
    jobRunning cfg s j ↔ ∃ m, m < cfg.M ∧ s.jobAt m = (j : Int) ∧ 0 < s.remAt m := by
  obtain ⟨hS, hMO, ⟨hc, hP, hJO, hMach⟩, hMask, hB⟩ := hI
  constructor
  · rintro ⟨k, hk, hs, hrun⟩
    obtain ⟨hm0, hm1⟩ := hMO j hj k hk hs.1
    have hmid : s.midAt j k = (((s.midAt j k).toNat : Nat) : Int) := by omega
    have hmM : (s.midAt j k).toNat < cfg.M := by omega
    obtain ⟨h0, hU, hA⟩ := hB _ hmM
    have h1 := hU j hj k hk hs hmid
    have hpos : 0 < s.remAt (s.midAt j k).toNat := by omega
    obtain ⟨j', hj', k', hk', hs', hmid', hjob', he'⟩ := hA hpos
    refine ⟨_, hmM, ?_, hpos⟩
    have hd := hMach j hj k hk j' hj' k' hk' hs hs' (by rw [hmid']; exact hmid)
    have p1 := hP j hj k hk hs
    have p2 := hP j' hj' k' hk' hs'
    by_cases hne : j ≠ j' ∨ k ≠ k'
    · have := hd hne
      omega
    · have : j = j' := by omega
      rw [hjob', this]
  · rintro ⟨m, hm, hjob, hpos⟩
    obtain ⟨h0, hU, hA⟩ := hB m hm
    obtain ⟨j', hj', k, hk, hs, hmid, hjob', he⟩ := hA hpos
    have : j' = j := by omega
    subst this
    exact ⟨k, hk, hs, by omega⟩

/-! ### C04: mask = rules -/

theorem createActionMask_at (cfg : Cfg) (mjob mrem : List Int) (mid : List (List Int))
    (opsMask : List (List Bool)) {m c : Nat} (hm : m < cfg.M) (hc : c ≤ cfg.J) :
    at2 (createActionMask cfg mjob mrem mid opsMask) false m c =
      if c < cfg.J then isActionValid cfg mjob mrem mid opsMask c ((opIds opsMask).getD c 0) m else true := by
  unfold createActionMask at2
  simp only []
  rw [getD_map_range cfg.M _ _ hm]
  by_cases h : c < cfg.J
  · simp [h, List.getD_eq_getElem?_getD, List.getElem?_append_left]
  · have : c = cfg.J := by omega
    subst this
    simp [List.getD_eq_getElem?_getD, List.getElem?_append_right]

theorem ready_iff (cfg : Cfg) (s : State) (j : Nat) :
    ((List.range cfg.M).any fun m' => s.mjob.getD m' 0 == (j : Int) && decide (s.mrem.getD m' 0 > 0)) = true
      ↔ ∃ m, m < cfg.M ∧ s.jobAt m = (j : Int) ∧ 0 < s.remAt m := by
  simp [List.any_eq_true, State.jobAt, State.remAt]

theorem finished_iff (cfg : Cfg) (s : State) (hS : Shaped cfg s) {j : Nat} (hj : j < cfg.J) :
    ((s.opsMask.getD j []).all (fun b => !b)) = false ↔ ∃ k, k < cfg.O ∧ s.maskAt j k = true := by
  have hlen : (s.opsMask.getD j []).length = cfg.O := (hS.2.2.2.2.1 j hj).2.2.1
  have : ∀ l : List Bool, (l.all (fun b => !b)) = !(l.any id) := by
    intro l; induction l <;> simp_all
  rw [this]
  simp only [Bool.not_eq_false', any_getD, hlen, maskAt_eq]

theorem mask_iff_legal (cfg : Cfg) (s : State) (hI : Inv cfg s) {m c : Nat} (hm : m < cfg.M)
    (hc : c ≤ cfg.J) : at2 (maskOf cfg s) false m c = true ↔ legal cfg s m c := by
  unfold maskOf
  rw [createActionMask_at cfg _ _ _ _ hm hc]
  by_cases h : c < cfg.J
  · rw [if_pos h]
    have hS := hI.1
    have hMask := hI.2.2.2.1
    have hbusy := busy_iff cfg s hI.2.2.2 hm
    have hrun := jobRunning_iff cfg s hI h
    have h0 := (hI.2.2.2.2 m hm).1
    unfold isActionValid legal
    simp only [Bool.and_eq_true, Bool.not_eq_true', beq_iff_eq]
    rw [← Bool.not_eq_true, ready_iff cfg s c, finished_iff cfg s hS h, ← hrun, hbusy]
    change ((s.remAt m = 0 ∧ s.midAt c (nextOf s c) = (m : Int)) ∧ ¬ jobRunning cfg s c) ∧ _ ↔ _
    constructor
    · rintro ⟨⟨⟨a1, a2⟩, a3⟩, a4⟩
      exact ⟨hm, Or.inr ⟨h, by omega, a3, nextOf s c, (nextOf_spec cfg s hS h a4).1,
        nextOf_isNextOp cfg s hS hMask h a4, a2⟩⟩
    · rintro ⟨_, hh⟩
      rcases hh with hh | ⟨_, b1, b2, k, hk, b3, b4⟩
      · omega
      · have hex : ∃ k, k < cfg.O ∧ s.maskAt c k = true := ⟨k, isNextOp_mask cfg s hMask h b3⟩
        have := isNextOp_unique cfg s b3 (nextOf_isNextOp cfg s hS hMask h hex)
        subst this
        exact ⟨⟨⟨by omega, b4⟩, b2⟩, hex⟩
  · have : c = cfg.J := by omega
    subst this
    simp [legal, hm]

/-! ### the successor state, field by field -/

theorem next_stepCount (cfg : Cfg) (s : State) (a : List Int) : (next cfg s a).stepCount = s.stepCount + 1 := rfl
theorem next_mid (cfg : Cfg) (s : State) (a : List Int) : (next cfg s a).mid = s.mid := rfl
theorem next_dur (cfg : Cfg) (s : State) (a : List Int) : (next cfg s a).dur = s.dur := rfl
theorem next_midAt (cfg : Cfg) (s : State) (a : List Int) (j k : Nat) : (next cfg s a).midAt j k = s.midAt j k := rfl
theorem next_durAt (cfg : Cfg) (s : State) (a : List Int) (j k : Nat) : (next cfg s a).durAt j k = s.durAt j k := rfl
theorem next_amask (cfg : Cfg) (s : State) (a : List Int) : (next cfg s a).amask = maskOf cfg (next cfg s a) := rfl

theorem next_schedAt (cfg : Cfg) (s : State) (a : List Int) {j k : Nat} (hj : j < cfg.J) (hk : k < cfg.O) :
    (next cfg s a).schedAt j k = if hit s a j k then s.stepCount else s.schedAt j k := by
  show at2 (updSched cfg s a) (-1) j k = _
  unfold updSched
  rw [at2_map_range cfg.J cfg.O _ _ hj hk]

theorem next_maskAt (cfg : Cfg) (s : State) (a : List Int) {j k : Nat} (hj : j < cfg.J) (hk : k < cfg.O) :
    (next cfg s a).maskAt j k = (s.maskAt j k && !(hit s a j k)) := by
  show at2 (updMask cfg s a) false j k = _
  unfold updMask
  rw [at2_map_range cfg.J cfg.O _ _ hj hk]

theorem next_jobAt (cfg : Cfg) (s : State) (a : List Int) {m : Nat} (hm : m < cfg.M) :
    (next cfg s a).jobAt m =
      if actAt a m = (cfg.J : Int) then (if s.remAt m = 0 then (cfg.J : Int) else s.jobAt m) else actAt a m := by
  show (updJob cfg s a).getD m 0 = _
  unfold updJob
  rw [getD_map_range cfg.M _ _ hm]
  by_cases h1 : actAt a m = (cfg.J : Int) <;> by_cases h2 : s.remAt m = 0 <;> simp [h1, h2]

theorem next_remAt (cfg : Cfg) (s : State) (a : List Int) {m : Nat} (hm : m < cfg.M) :
    (next cfg s a).remAt m =
      (let rt := if actAt a m = (cfg.J : Int) then s.remAt m else selDur s (opIds s.opsMask) (actAt a m)
       if rt > 0 then rt - 1 else 0) := by
  show (updRem cfg s a).getD m 0 = _
  unfold updRem
  simp only []
  rw [getD_map_range cfg.M _ _ hm]
  by_cases h1 : actAt a m = (cfg.J : Int) <;> simp [h1]

theorem getD_irrel {α} (l : List α) (d d' : α) {k : Nat} (h : k < l.length) : l.getD k d = l.getD k d' := by
  simp [List.getD_eq_getElem?_getD, List.getElem?_eq_getElem h]

theorem selDur_eq (cfg : Cfg) (s : State) (hS : Shaped cfg s) {j : Nat} (hj : j < cfg.J)
    (hn : nextOf s j < cfg.O) : selDur s (opIds s.opsMask) (j : Int) = s.durAt j (nextOf s j) := by
  obtain ⟨h1, h2, h3, h4, h5, h6, h7⟩ := hS
  unfold selDur Jx.Grid.getWC
  have hl : j < (opIds s.opsMask).length := by unfold opIds; simp; omega
  rw [Jx.getWC_nat _ _ hl, Jx.getWC_nat _ _ (by omega : j < s.dur.length)]
  have hr : (s.dur.getD j []).length = cfg.O := (h5 j hj).2.1
  change Jx.getWC (s.dur.getD j []) 0 ((nextOf s j : Nat) : Int) = _
  rw [Jx.getWC_nat _ _ (by omega : nextOf s j < (s.dur.getD j []).length)]
  exact getD_irrel _ _ _ (by omega)

theorem isNewJob_iff (a : List Int) (j : Nat) :
    isNewJob a j = true ↔ ∃ m, m < a.length ∧ actAt a m = (j : Int) := by
  unfold isNewJob actAt
  rw [List.any_eq_true]
  constructor
  · rintro ⟨x, hx, hxe⟩
    obtain ⟨i, hi, rfl⟩ := List.mem_iff_getElem.1 hx
    exact ⟨i, hi, by simpa [List.getD_eq_getElem?_getD, List.getElem?_eq_getElem hi] using hxe⟩
  · rintro ⟨m, hm, he⟩
    refine ⟨a[m], List.getElem_mem hm, ?_⟩
    simpa [List.getD_eq_getElem?_getD, List.getElem?_eq_getElem hm] using he

/-- what the rules guarantee about a started op -/
theorem legal_facts (cfg : Cfg) (s : State) (a : List Int) (hL : legalAction cfg s a) {m j : Nat}
    (hm : m < cfg.M) (hj : j < cfg.J) (ha : actAt a m = (j : Int)) :
    ¬ machineBusy cfg s m ∧ ¬ jobRunning cfg s j ∧ ∃ k, k < cfg.O ∧ isNextOp cfg s j k ∧ s.midAt j k = (m : Int) := by
  obtain ⟨_, hleg⟩ := (hL.2 m hm)
  rw [ha] at hleg
  simp only [Int.toNat_natCast] at hleg
  obtain ⟨_, h | ⟨_, h1, h2, h3⟩⟩ := hleg
  · omega
  · exact ⟨h1, h2, h3⟩

theorem hit_iff (cfg : Cfg) (s : State) (a : List Int) (hI : Inv cfg s) (hL : legalAction cfg s a)
    {j k : Nat} (hj : j < cfg.J) (hk : k < cfg.O) : hit s a j k = true ↔ Hit cfg s a j k := by
  unfold hit Hit
  rw [Bool.and_eq_true, isNewJob_iff, hL.1]
  change (_ ∧ (k == nextOf s j) = true) ↔ _
  constructor
  · rintro ⟨⟨m, hm, ha⟩, hk'⟩
    obtain ⟨_, _, k', hk'O, hn, _⟩ := legal_facts cfg s a hL hm hj ha
    have hex : ∃ k, k < cfg.O ∧ s.maskAt j k = true := ⟨k', isNextOp_mask cfg s hI.2.2.2.1 hj hn⟩
    have := nextOf_isNextOp cfg s hI.1 hI.2.2.2.1 hj hex
    have hk2 : k = nextOf s j := by simpa using hk'
    exact ⟨m, hm, ha, hk2 ▸ this⟩
  · rintro ⟨m, hm, ha, hn⟩
    have hex : ∃ k, k < cfg.O ∧ s.maskAt j k = true := ⟨k, isNextOp_mask cfg s hI.2.2.2.1 hj hn⟩
    have := isNextOp_unique cfg s hn (nextOf_isNextOp cfg s hI.1 hI.2.2.2.1 hj hex)
    exact ⟨⟨m, hm, ha⟩, by simp [this]⟩

/-! ### C06: legal play preserves the invariant -/

section preserve
variable (cfg : Cfg) (s : State) (a : List Int) (hI : Inv cfg s) (hL : legalAction cfg s a)
include hI hL

omit hI in
theorem hit_full {j k : Nat} (hj : j < cfg.J) (h : Hit cfg s a j k) :
    ∃ m, m < cfg.M ∧ actAt a m = (j : Int) ∧ isNextOp cfg s j k ∧ s.midAt j k = (m : Int) ∧
      ¬ machineBusy cfg s m ∧ ¬ jobRunning cfg s j := by
  obtain ⟨m, hm, ha, hn⟩ := h
  obtain ⟨nb, nr, k', _, hn', hmid⟩ := legal_facts cfg s a hL hm hj ha
  have := isNextOp_unique cfg s hn hn'
  subst this
  exact ⟨m, hm, ha, hn, hmid, nb, nr⟩

omit hI hL in
theorem hit_not_sched {j k : Nat} (h : Hit cfg s a j k) : ¬ isSched s j k := by
  obtain ⟨m, hm, ha, hn⟩ := h
  exact hn.2.2.1

theorem isSched_next {j k : Nat} (hj : j < cfg.J) (hk : k < cfg.O) :
    isSched (next cfg s a) j k ↔ (Hit cfg s a j k ∨ isSched s j k) := by
  have hc : 0 ≤ s.stepCount := hI.2.2.1.1
  unfold isSched isOp
  rw [next_midAt, next_schedAt cfg s a hj hk]
  by_cases hh : hit s a j k = true
  · have hH := (hit_iff cfg s a hI hL hj hk).1 hh
    have hop : s.midAt j k ≠ -1 := by obtain ⟨m, hm, ha, hn⟩ := hH; exact hn.2.1
    simp only [hh, if_true]
    constructor
    · intro _; exact Or.inl hH
    · intro _; exact ⟨hop, by omega⟩
  · have hH : ¬ Hit cfg s a j k := fun h => hh ((hit_iff cfg s a hI hL hj hk).2 h)
    simp only [hh]
    constructor
    · intro h; exact Or.inr h
    · rintro (h | h)
      · exact absurd h hH
      · exact h

theorem endTime_next {j k : Nat} (hj : j < cfg.J) (hk : k < cfg.O) :
    endTime (next cfg s a) j k = if Hit cfg s a j k then s.stepCount + s.durAt j k else endTime s j k := by
  unfold endTime
  rw [next_durAt, next_schedAt cfg s a hj hk]
  by_cases hh : hit s a j k = true
  · have hH := (hit_iff cfg s a hI hL hj hk).1 hh
    simp [hh, hH]
  · have hH : ¬ Hit cfg s a j k := fun h => hh ((hit_iff cfg s a hI hL hj hk).2 h)
    simp [hh, hH]

theorem schedAt_next {j k : Nat} (hj : j < cfg.J) (hk : k < cfg.O) :
    (next cfg s a).schedAt j k = if Hit cfg s a j k then s.stepCount else s.schedAt j k := by
  rw [next_schedAt cfg s a hj hk]
  by_cases hh : hit s a j k = true
  · have hH := (hit_iff cfg s a hI hL hj hk).1 hh
    simp [hh, hH]
  · have hH : ¬ Hit cfg s a j k := fun h => hh ((hit_iff cfg s a hI hL hj hk).2 h)
    simp [hh, hH]

omit hI hL in
theorem not_jobRunning_end {j k : Nat} (hk : k < cfg.O) (h : ¬ jobRunning cfg s j) (hs : isSched s j k) :
    endTime s j k ≤ s.stepCount := by
  by_cases hlt : s.stepCount < endTime s j k
  · exact absurd ⟨k, hk, hs, hlt⟩ h
  · omega

omit hI hL in
theorem not_busy_end {m j k : Nat} (hj : j < cfg.J) (hk : k < cfg.O) (h : ¬ machineBusy cfg s m)
    (hs : isSched s j k) (hmid : s.midAt j k = (m : Int)) : endTime s j k ≤ s.stepCount := by
  by_cases hlt : s.stepCount < endTime s j k
  · exact absurd ⟨j, hj, k, hk, ⟨hs, hlt⟩, hmid⟩ h
  · omega

theorem past_next : PastOK cfg (next cfg s a) := by
  intro j hj k hk hs
  have hc : 0 ≤ s.stepCount := hI.2.2.1.1
  rw [schedAt_next cfg s a hI hL hj hk, next_stepCount]
  by_cases hH : Hit cfg s a j k
  · simp only [hH, if_true]; omega
  · simp only [hH, if_false]
    rcases (isSched_next cfg s a hI hL hj hk).1 hs with h | h
    · exact absurd h hH
    · have := hI.2.2.1.2.1 j hj k hk h
      omega

theorem jobOrder_next : JobOrderOK cfg (next cfg s a) := by
  intro j hj k' hk' k hkk hop hs'
  have hk : k < cfg.O := by omega
  have hop0 : isOp s j k := hop
  rw [isSched_next cfg s a hI hL hj hk, endTime_next cfg s a hI hL hj hk, schedAt_next cfg s a hI hL hj hk']
  rcases (isSched_next cfg s a hI hL hj hk').1 hs' with h | h
  · obtain ⟨m, hm, ha, hn, hmid, nb, nr⟩ := hit_full cfg s a hL hj h
    have hsk : isSched s j k := by
      by_cases hsk : isSched s j k
      · exact hsk
      · exact absurd ⟨hop0, hsk⟩ (hn.2.2.2 k hkk)
    have hnh : ¬ Hit cfg s a j k := fun hh => hit_not_sched cfg s a hh hsk
    simp only [h, hnh, if_true, if_false]
    exact ⟨Or.inr hsk, not_jobRunning_end cfg s hk nr hsk⟩
  · have hnh' : ¬ Hit cfg s a j k' := fun hh => hit_not_sched cfg s a hh h
    obtain ⟨h1, h2⟩ := hI.2.2.1.2.2.1 j hj k' hk' k hkk hop0 h
    have hnh : ¬ Hit cfg s a j k := fun hh => hit_not_sched cfg s a hh h1
    simp only [hnh', hnh, if_false]
    exact ⟨Or.inr h1, h2⟩

theorem machine_next : MachineOK cfg (next cfg s a) := by
  intro j hj k hk j' hj' k' hk' hs hs' hmid hne
  rw [endTime_next cfg s a hI hL hj hk, endTime_next cfg s a hI hL hj' hk',
    schedAt_next cfg s a hI hL hj hk, schedAt_next cfg s a hI hL hj' hk']
  have hmid0 : s.midAt j k = s.midAt j' k' := hmid
  rcases (isSched_next cfg s a hI hL hj hk).1 hs with h | h <;>
  rcases (isSched_next cfg s a hI hL hj' hk').1 hs' with h' | h'
  · exfalso
    obtain ⟨m, hm, ha, hn, hm1, _, _⟩ := hit_full cfg s a hL hj h
    obtain ⟨m', hm', ha', hn', hm1', _, _⟩ := hit_full cfg s a hL hj' h'
    have : m = m' := by omega
    subst this
    have : j = j' := by omega
    subst this
    have := isNextOp_unique cfg s hn hn'
    omega
  · obtain ⟨m, hm, ha, hn, hm1, nb, _⟩ := hit_full cfg s a hL hj h
    have hnh : ¬ Hit cfg s a j' k' := fun hh => hit_not_sched cfg s a hh h'
    simp only [h, hnh, if_true, if_false]
    exact Or.inr (not_busy_end cfg s hj' hk' nb h' (by omega))
  · obtain ⟨m, hm, ha, hn, hm1, nb, _⟩ := hit_full cfg s a hL hj' h'
    have hnh : ¬ Hit cfg s a j k := fun hh => hit_not_sched cfg s a hh h
    simp only [h', hnh, if_true, if_false]
    exact Or.inl (not_busy_end cfg s hj hk nb h (by omega))
  · have hnh : ¬ Hit cfg s a j k := fun hh => hit_not_sched cfg s a hh h
    have hnh' : ¬ Hit cfg s a j' k' := fun hh => hit_not_sched cfg s a hh h'
    simp only [hnh, hnh', if_false]
    exact hI.2.2.1.2.2.2 j hj k hk j' hj' k' hk' h h' hmid0 hne

theorem feasible_next : Feasible cfg (next cfg s a) := by
  refine ⟨?_, past_next cfg s a hI hL, jobOrder_next cfg s a hI hL, machine_next cfg s a hI hL⟩
  have hc : 0 ≤ s.stepCount := hI.2.2.1.1
  rw [next_stepCount]; omega

end preserve

section preserve2
variable (cfg : Cfg) (s : State) (a : List Int) (hI : Inv cfg s) (hL : legalAction cfg s a)
include hI hL

theorem mask_next : MaskOK cfg (next cfg s a) := by
  intro j hj k hk
  rw [next_maskAt cfg s a hj hk, isSched_next cfg s a hI hL hj hk]
  have hop : isOp (next cfg s a) j k ↔ isOp s j k := Iff.rfl
  rw [hop]
  have hM := hI.2.2.2.1 j hj k hk
  by_cases hh : hit s a j k = true
  · have hH := (hit_iff cfg s a hI hL hj hk).1 hh
    simp only [hh, Bool.not_true, Bool.and_false]
    constructor
    · intro h; exact Bool.noConfusion h
    · rintro ⟨_, h⟩; exact absurd (Or.inl hH) h
  · have hH : ¬ Hit cfg s a j k := fun h => hh ((hit_iff cfg s a hI hL hj hk).2 h)
    have : hit s a j k = false := by simpa using hh
    simp only [this, Bool.not_false, Bool.and_true]
    rw [hM]
    constructor
    · rintro ⟨h1, h2⟩; exact ⟨h1, fun h => h.elim hH h2⟩
    · rintro ⟨h1, h2⟩; exact ⟨h1, fun h => h2 (Or.inr h)⟩

omit hI in
/-- the choice of a machine is the no-op or a job -/
theorem act_cases {m : Nat} (hm : m < cfg.M) :
    actAt a m = (cfg.J : Int) ∨ ∃ j, j < cfg.J ∧ actAt a m = (j : Int) := by
  obtain ⟨h0, hleg⟩ := hL.2 m hm
  obtain ⟨_, h | ⟨h, _⟩⟩ := hleg
  · left; omega
  · right; exact ⟨(actAt a m).toNat, h, by omega⟩

theorem machine_fields_next {m : Nat} (hm : m < cfg.M) :
    0 ≤ (next cfg s a).remAt m ∧ RemUpper cfg (next cfg s a) m ∧ RemAttained cfg (next cfg s a) m := by
  obtain ⟨h0, hU, hA⟩ := hI.2.2.2.2 m hm
  rcases act_cases cfg s a hL hm with hno | ⟨j, hj, haj⟩
  · -- no-op on machine m
    have hrem : (next cfg s a).remAt m = if s.remAt m > 0 then s.remAt m - 1 else 0 := by
      rw [next_remAt cfg s a hm]; simp [hno]
    have hjob : (next cfg s a).jobAt m = if s.remAt m = 0 then (cfg.J : Int) else s.jobAt m := by
      rw [next_jobAt cfg s a hm]; simp [hno]
    refine ⟨by rw [hrem]; split <;> omega, ?_, ?_⟩
    · intro j hj k hk hs hmid
      have hmid0 : s.midAt j k = (m : Int) := hmid
      rw [endTime_next cfg s a hI hL hj hk, next_stepCount, hrem]
      rcases (isSched_next cfg s a hI hL hj hk).1 hs with h | h
      · exfalso
        obtain ⟨m1, hm1, ha1, _, hmid1, _, _⟩ := hit_full cfg s a hL hj h
        have : m1 = m := by omega
        subst this
        omega
      · have hnh : ¬ Hit cfg s a j k := fun hh => hit_not_sched cfg s a hh h
        have := hU j hj k hk h hmid0
        simp only [hnh, if_false]
        split <;> omega
    · intro hpos
      rw [hrem] at hpos
      have hp : 0 < s.remAt m := by split at hpos <;> omega
      obtain ⟨j, hj, k, hk, hs, hmid, hjb, he⟩ := hA hp
      have hnh : ¬ Hit cfg s a j k := fun hh => hit_not_sched cfg s a hh hs
      refine ⟨j, hj, k, hk, (isSched_next cfg s a hI hL hj hk).2 (Or.inr hs), hmid, ?_, ?_⟩
      · rw [hjob, if_neg (by omega)]; exact hjb
      · rw [endTime_next cfg s a hI hL hj hk, next_stepCount, hrem]
        simp only [hnh, if_false]
        rw [if_pos hp]; omega
  · -- machine m starts job j
    obtain ⟨nb, nr, k, hk, hn, hmid⟩ := legal_facts cfg s a hL hm hj haj
    have hH : Hit cfg s a j k := ⟨m, hm, haj, hn⟩
    have hr0 : s.remAt m = 0 := by
      have : ¬ (0 < s.remAt m) := fun h => nb ((busy_iff cfg s hI.2.2.2 hm).2 h)
      omega
    have hex : ∃ k, k < cfg.O ∧ s.maskAt j k = true := ⟨k, isNextOp_mask cfg s hI.2.2.2.1 hj hn⟩
    have hnk : nextOf s j = k := isNextOp_unique cfg s (nextOf_isNextOp cfg s hI.1 hI.2.2.2.1 hj hex) hn
    have hne : actAt a m ≠ (cfg.J : Int) := by omega
    have hrem : (next cfg s a).remAt m = if s.durAt j k > 0 then s.durAt j k - 1 else 0 := by
      rw [next_remAt cfg s a hm]
      simp only [hne, if_false]
      rw [haj, selDur_eq cfg s hI.1 hj (by omega), hnk]
    have hjob : (next cfg s a).jobAt m = (j : Int) := by
      rw [next_jobAt cfg s a hm, if_neg hne]; exact haj
    refine ⟨by rw [hrem]; split <;> omega, ?_, ?_⟩
    · intro j2 hj2 k2 hk2 hs hmid2
      have hmid0 : s.midAt j2 k2 = (m : Int) := hmid2
      rw [endTime_next cfg s a hI hL hj2 hk2, next_stepCount, hrem]
      rcases (isSched_next cfg s a hI hL hj2 hk2).1 hs with h | h
      · obtain ⟨m1, hm1, ha1, hn1, hmid1, _, _⟩ := hit_full cfg s a hL hj2 h
        have : m1 = m := by omega
        subst this
        have : j2 = j := by omega
        subst this
        have := isNextOp_unique cfg s hn1 hn
        subst this
        simp only [h, if_true]
        split <;> omega
      · have hnh : ¬ Hit cfg s a j2 k2 := fun hh => hit_not_sched cfg s a hh h
        have := not_busy_end cfg s hj2 hk2 nb h hmid0
        simp only [hnh, if_false]
        split <;> omega
    · intro hpos
      rw [hrem] at hpos
      have hp : 1 < s.durAt j k := by split at hpos <;> omega
      refine ⟨j, hj, k, hk, (isSched_next cfg s a hI hL hj hk).2 (Or.inl hH), hmid, hjob, ?_⟩
      rw [endTime_next cfg s a hI hL hj hk, next_stepCount, hrem]
      simp only [hH, if_true]
      rw [if_pos (by omega)]; omega

omit hI hL in
theorem shaped_next (hS : Shaped cfg s) : Shaped cfg (next cfg s a) := by
  obtain ⟨h1, h2, h3, h4, h5, h6, h7⟩ := hS
  refine ⟨h1, h2, by simp [next, updMask], by simp [next, updSched], ?_, by simp [next, updJob],
    by simp [next, updRem]⟩
  intro j hj
  refine ⟨(h5 j hj).1, (h5 j hj).2.1, ?_, ?_⟩
  · show ((updMask cfg s a).getD j []).length = cfg.O
    unfold updMask; rw [getD_map_range cfg.J _ _ hj]; simp
  · show ((updSched cfg s a).getD j []).length = cfg.O
    unfold updSched; rw [getD_map_range cfg.J _ _ hj]; simp

/-- C06: a legal action keeps the schedule feasible and the bookkeeping consistent -/
theorem inv_next : Inv cfg (next cfg s a) :=
  ⟨shaped_next cfg s a hI.1, hI.2.1, feasible_next cfg s a hI hL,
   mask_next cfg s a hI hL, fun m hm => machine_fields_next cfg s a hI hL hm⟩

end preserve2

/-! ### C04/C05: the environment's own validity test -/

theorem legalAction_inSpec (cfg : Cfg) (s : State) (a : List Int) (h : legalAction cfg s a) : InSpec cfg a := by
  refine ⟨h.1, fun m hm => ?_⟩
  obtain ⟨h0, _, hl | ⟨hl, _⟩⟩ := h.2 m hm <;> omega

theorem maskOf_length (cfg : Cfg) (s : State) : (maskOf cfg s).length = cfg.M := by
  simp [maskOf, createActionMask]

theorem maskOf_row_length (cfg : Cfg) (s : State) {m : Nat} (hm : m < cfg.M) :
    ((maskOf cfg s).getD m []).length = cfg.J + 1 := by
  unfold maskOf createActionMask
  simp only []
  rw [getD_map_range cfg.M _ _ hm]; simp

theorem gather_mask (cfg : Cfg) (s : State) {m c : Nat} (hm : m < cfg.M) (hc : c ≤ cfg.J) :
    Jx.Grid.getWC (maskOf cfg s) false (m : Int) (c : Int) = at2 (maskOf cfg s) false m c := by
  unfold Jx.Grid.getWC at2
  have h1 : m < (maskOf cfg s).length := by rw [maskOf_length]; exact hm
  rw [Jx.getWC_nat _ _ h1]
  have h2 : c < ((maskOf cfg s).getD m []).length := by rw [maskOf_row_length cfg s hm]; omega
  rw [Jx.getWC_nat _ _ h2]

/-- C04: on a reachable state the environment's validity test (against the cached mask) accepts
exactly the legal actions -/
theorem invalid_iff (cfg : Cfg) (s : State) (a : List Int) (hI : Inv cfg s) (hC : s.amask = maskOf cfg s)
    (hA : InSpec cfg a) : invalid cfg s a = false ↔ legalAction cfg s a := by
  unfold invalid legalAction
  rw [Bool.not_eq_false', List.all_eq_true, hC]
  constructor
  · intro h
    refine ⟨hA.1, fun m hm => ?_⟩
    obtain ⟨h0, h1⟩ := hA.2 m hm
    refine ⟨h0, ?_⟩
    have := h m (List.mem_range.2 hm)
    have e : actAt a m = (((actAt a m).toNat : Nat) : Int) := by omega
    rw [e, gather_mask cfg s hm (by omega)] at this
    exact (mask_iff_legal cfg s hI hm (by omega)).1 this
  · rintro ⟨_, h⟩ m hm
    have hm := List.mem_range.1 hm
    obtain ⟨h0, h1⟩ := hA.2 m hm
    have e : actAt a m = (((actAt a m).toNat : Nat) : Int) := by omega
    rw [e, gather_mask cfg s hm (by omega)]
    exact (mask_iff_legal cfg s hI hm (by omega)).2 (h m hm).2

theorem step_fst (cfg : Cfg) (s : State) (a : List Int) : (step cfg s a).1 = next cfg s a := rfl

/-- C05: an action the rules forbid ends the episode with the penalty −J·O·D -/
theorem illegal_terminates (cfg : Cfg) (s : State) (a : List Int) (hI : Inv cfg s)
    (hC : s.amask = maskOf cfg s) (hA : InSpec cfg a) (h : ¬ legalAction cfg s a) :
    (step cfg s a).2.stepType = .last ∧ (step cfg s a).2.reward = [penalty cfg] ∧
    (step cfg s a).2.discount = [0] := by
  have hinv : invalid cfg s a = true := by
    cases hh : invalid cfg s a
    · exact absurd ((invalid_iff cfg s a hI hC hA).1 hh) h
    · rfl
  unfold step condLast termination zerosR RShape.size
  simp [hinv]

/-- a valid step that does not leave all machines idle costs exactly one time unit -/
theorem valid_step_reward (cfg : Cfg) (s : State) (a : List Int) (hv : invalid cfg s a = false)
    (hidle : allIdle cfg (next cfg s a) = false) :
    (step cfg s a).2.reward = [-1] ∧ (step cfg s a).1.stepCount = s.stepCount + 1 ∧
    ((step cfg s a).2.stepType = .last ↔ finished cfg (next cfg s a) = true) := by
  unfold step condLast termination transition
  simp only [hv, hidle, Bool.false_or]
  cases hf : finished cfg (next cfg s a) <;> simp [next_stepCount]

/-- all machines idle after a valid step: the episode ends with the penalty -/
theorem idle_terminates (cfg : Cfg) (s : State) (a : List Int)
    (hidle : allIdle cfg (next cfg s a) = true) :
    (step cfg s a).2.stepType = .last ∧ (step cfg s a).2.reward = [penalty cfg] := by
  unfold step condLast termination
  simp [hidle]

/-! ### C12 -/

theorem obs_faithful (cfg : Cfg) (s : State) (a : List Int) :
    (step cfg s a).2.obs = observe cfg (step cfg s a).1 := by
  have h : obsOf (next cfg s a) = observe cfg (next cfg s a) := by
    unfold obsOf observe; rw [next_amask]
  unfold step condLast termination transition
  simp only []
  split <;> exact h

/-- the cached mask of every state produced by `step` is the mask of that state -/
theorem cached_mask_step (cfg : Cfg) (s : State) (a : List Int) :
    (step cfg s a).1.amask = maskOf cfg (step cfg s a).1 := rfl

theorem cached_mask_init (cfg : Cfg) (mid dur : List (List Int)) :
    (initState cfg mid dur).amask = maskOf cfg (initState cfg mid dur) := rfl

/-! ### reset -/

theorem getD_replicate {α} (n : Nat) (x d : α) {m : Nat} (h : m < n) : (List.replicate n x).getD m d = x := by
  simp [List.getD_eq_getElem?_getD, List.getElem?_replicate, h]

/-- C06 (reset): the state the generators build satisfies the invariant, for every instance of
the right shape whose ops name machines of the shop -/
theorem init_inv (cfg : Cfg) (mid dur : List (List Int))
    (hmid : mid.length = cfg.J ∧ ∀ j, j < cfg.J → (mid.getD j []).length = cfg.O)
    (hdur : dur.length = cfg.J ∧ ∀ j, j < cfg.J → (dur.getD j []).length = cfg.O)
    (hM : MachinesOK cfg (initState cfg mid dur)) : Inv cfg (initState cfg mid dur) := by
  have hsched : ∀ j, j < cfg.J → ∀ k, k < cfg.O → (initState cfg mid dur).schedAt j k = -1 := by
    intro j hj k hk
    show at2 (List.replicate cfg.J (List.replicate cfg.O (-1))) (-1) j k = -1
    unfold at2; rw [getD_replicate _ _ _ hj, getD_replicate _ _ _ hk]
  have hns : ∀ j, j < cfg.J → ∀ k, k < cfg.O → ¬ isSched (initState cfg mid dur) j k := by
    intro j hj k hk h; exact h.2 (hsched j hj k hk)
  have hrem : ∀ m, m < cfg.M → (initState cfg mid dur).remAt m = 0 := by
    intro m hm
    show (List.replicate cfg.M (0:Int)).getD m 0 = 0
    rw [getD_replicate _ _ _ hm]
  refine ⟨⟨hmid.1, hdur.1, by simp [initState, hmid.1], by simp [initState], ?_, by simp [initState],
    by simp [initState]⟩, hM, ⟨by simp [initState], ?_, ?_, ?_⟩, ?_, ?_⟩
  · intro j hj
    refine ⟨hmid.2 j hj, hdur.2 j hj, ?_, ?_⟩
    · show ((mid.map (fun row => row.map (fun x => x != -1))).getD j []).length = cfg.O
      have := hmid.2 j hj
      simp only [List.getD_eq_getElem?_getD, List.getElem?_map] at this ⊢
      cases h : mid[j]? <;> simp_all
    · show ((List.replicate cfg.J (List.replicate cfg.O (-1 : Int))).getD j []).length = cfg.O
      rw [getD_replicate _ _ _ hj]; simp
  · intro j hj k hk h; exact absurd h (hns j hj k hk)
  · intro j hj k' hk' k hkk _ h; exact absurd h (hns j hj k' hk')
  · intro j hj k hk j' hj' k' hk' h; exact absurd h (hns j hj k hk)
  · intro j hj k hk
    have : (initState cfg mid dur).maskAt j k = ((initState cfg mid dur).midAt j k != -1) := by
      show at2 (mid.map (fun row => row.map (fun x => x != -1))) false j k = (at2 mid (-1) j k != -1)
      unfold at2
      simp only [List.getD_eq_getElem?_getD, List.getElem?_map]
      cases h : mid[j]? with
      | none => simp
      | some row => cases h2 : row[k]? <;> simp [h2]
    rw [this]
    unfold isOp
    constructor
    · intro h; exact ⟨by simpa using h, hns j hj k hk⟩
    · rintro ⟨h, _⟩; simpa using h
  · intro m hm
    refine ⟨by rw [hrem m hm]; omega, ?_, ?_⟩
    · intro j hj k hk h; exact absurd h (hns j hj k hk)
    · intro h; rw [hrem m hm] at h; omega


/-! ### C08: completion is detected exactly at the makespan -/

theorem foldl_max_eq (l : List Int) (init v : Int) (h0 : init ≤ v) (hle : ∀ x, x ∈ l → x ≤ v)
    (hmem : v ∈ l ∨ init = v) : l.foldl max init = v := by
  induction l generalizing init with
  | nil => simp at hmem; simpa using hmem
  | cons x xs ih =>
    simp only [List.foldl_cons]
    have hx : x ≤ v := hle x (by simp)
    apply ih
    · omega
    · intro y hy; exact hle y (by simp [hy])
    · rcases hmem with h | h
      · rcases List.mem_cons.1 h with h | h
        · right; omega
        · left; exact h
      · right; omega

theorem mem_endTimes (cfg : Cfg) (s : State) (x : Int) :
    x ∈ endTimes cfg s ↔ ∃ j, j < cfg.J ∧ ∃ k, k < cfg.O ∧ isSched s j k ∧ x = endTime s j k := by
  unfold endTimes
  simp only [List.mem_flatMap, List.mem_filterMap, List.mem_range]
  constructor
  · rintro ⟨j, hj, k, hk, h⟩
    by_cases hs : isSched s j k
    · simp [hs] at h; exact ⟨j, hj, k, hk, hs, h.symm⟩
    · simp [hs] at h
  · rintro ⟨j, hj, k, hk, hs, rfl⟩
    exact ⟨j, hj, k, hk, by simp [hs]⟩

/-- the makespan is `v` when every scheduled op completes by `v` and one completes at `v` -/
theorem makespan_eq (cfg : Cfg) (s : State) (v : Int) (h0 : 0 ≤ v)
    (hle : ∀ j, j < cfg.J → ∀ k, k < cfg.O → isSched s j k → endTime s j k ≤ v)
    (hex : ∃ j, j < cfg.J ∧ ∃ k, k < cfg.O ∧ isSched s j k ∧ endTime s j k = v) : makespan cfg s = v := by
  unfold makespan
  apply foldl_max_eq _ _ _ h0
  · intro x hx
    obtain ⟨j, hj, k, hk, hs, rfl⟩ := (mem_endTimes cfg s x).1 hx
    exact hle j hj k hk hs
  · left
    obtain ⟨j, hj, k, hk, hs, he⟩ := hex
    exact (mem_endTimes cfg s v).2 ⟨j, hj, k, hk, hs, he.symm⟩

theorem finished_iff_all (cfg : Cfg) (s : State) (hS : Shaped cfg s) :
    finished cfg s = true ↔ (∀ j, j < cfg.J → ∀ k, k < cfg.O → s.maskAt j k = false) ∧
      ∀ m, m < cfg.M → s.remAt m = 0 := by
  unfold finished
  rw [Bool.and_eq_true, List.all_eq_true]
  have h1 : (!(s.opsMask.any fun row => row.any id)) = true ↔
      ∀ j, j < cfg.J → ∀ k, k < cfg.O → s.maskAt j k = false := by
    rw [Bool.not_eq_true']
    constructor
    · intro h j hj k hk
      cases hm : s.maskAt j k
      · rfl
      · exfalso
        have hjl : j < s.opsMask.length := by rw [hS.2.2.1]; exact hj
        have : (s.opsMask.any fun row => row.any id) = true := by
          rw [List.any_eq_true]
          refine ⟨s.opsMask[j], List.getElem_mem hjl, ?_⟩
          rw [any_getD]
          have hrow : s.opsMask.getD j [] = s.opsMask[j] := by
            simp [List.getD_eq_getElem?_getD, List.getElem?_eq_getElem hjl]
          have hlen := (hS.2.2.2.2.1 j hj).2.2.1
          rw [hrow] at hlen
          refine ⟨k, by omega, ?_⟩
          rw [← hrow]; exact hm
        rw [h] at this; exact Bool.noConfusion this
    · intro h
      cases hh : (s.opsMask.any fun row => row.any id)
      · rfl
      · exfalso
        rw [List.any_eq_true] at hh
        obtain ⟨row, hrow, hany⟩ := hh
        obtain ⟨j, hjl, rfl⟩ := List.mem_iff_getElem.1 hrow
        have hj : j < cfg.J := by rw [← hS.2.2.1]; exact hjl
        have hrow : s.opsMask.getD j [] = s.opsMask[j] := by
          simp [List.getD_eq_getElem?_getD, List.getElem?_eq_getElem hjl]
        rw [any_getD] at hany
        obtain ⟨k, hk, hm⟩ := hany
        have hlen := (hS.2.2.2.2.1 j hj).2.2.1
        rw [hrow] at hlen
        have := h j hj k (by omega)
        rw [maskAt_eq, hrow, hm] at this
        exact Bool.noConfusion this
  rw [h1]
  constructor
  · rintro ⟨a1, a2⟩
    exact ⟨a1, fun m hm => by simpa using a2 m (List.mem_range.2 hm)⟩
  · rintro ⟨a1, a2⟩
    exact ⟨a1, fun m hm => by simpa using a2 m (List.mem_range.1 hm)⟩

/-- C08: under legal play from a state that is not finished, when the successor is finished its
clock equals the makespan of the schedule (durations ≥ 1) -/
theorem completion_at_makespan (cfg : Cfg) (s : State) (a : List Int) (hI : Inv cfg s)
    (hL : legalAction cfg s a) (hD : DurationsOK cfg s) (hnf : finished cfg s = false)
    (hf : finished cfg (next cfg s a) = true) :
    makespan cfg (next cfg s a) = (next cfg s a).stepCount ∧ IsSolution cfg (next cfg s a) := by
  have hI' := inv_next cfg s a hI hL
  obtain ⟨hS', hMO', hF', hMask', hB'⟩ := hI'
  obtain ⟨hall, hrem⟩ := (finished_iff_all cfg _ hS').1 hf
  have hc : 0 ≤ s.stepCount := hI.2.2.1.1
  -- every real op is scheduled and completes by the new clock
  have hdone : ∀ j, j < cfg.J → ∀ k, k < cfg.O → isOp (next cfg s a) j k →
      isSched (next cfg s a) j k ∧ endTime (next cfg s a) j k ≤ (next cfg s a).stepCount := by
    intro j hj k hk hop
    have hs : isSched (next cfg s a) j k := by
      by_cases hs : isSched (next cfg s a) j k
      · exact hs
      · have := (hMask' j hj k hk).2 ⟨hop, hs⟩
        rw [hall j hj k hk] at this; exact Bool.noConfusion this
    refine ⟨hs, ?_⟩
    obtain ⟨hm0, hm1⟩ := hMO' j hj k hk hop
    have hmM : ((next cfg s a).midAt j k).toNat < cfg.M := by omega
    have := (hB' _ hmM).2.1 j hj k hk hs (by omega)
    rw [hrem _ hmM] at this
    omega
  refine ⟨?_, hF', hMO', hdone⟩
  apply makespan_eq cfg _ _ (by rw [next_stepCount]; omega)
  · intro j hj k hk hs; exact (hdone j hj k hk hs.1).2
  · -- some op completes exactly now
    have hnf' : ¬ ((∀ j, j < cfg.J → ∀ k, k < cfg.O → s.maskAt j k = false) ∧
        ∀ m, m < cfg.M → s.remAt m = 0) := by
      intro h
      have := (finished_iff_all cfg s hI.1).2 h
      rw [hnf] at this; exact Bool.noConfusion this
    by_cases hex : ∃ j, j < cfg.J ∧ ∃ k, k < cfg.O ∧ s.maskAt j k = true
    · obtain ⟨j, hj, k, hk, hm⟩ := hex
      obtain ⟨hop, hns⟩ := (hI.2.2.2.1 j hj k hk).1 hm
      obtain ⟨hs', hle⟩ := hdone j hj k hk hop
      refine ⟨j, hj, k, hk, hs', ?_⟩
      rcases (isSched_next cfg s a hI hL hj hk).1 hs' with h | h
      · rw [endTime_next cfg s a hI hL hj hk, if_pos h, next_stepCount] at hle ⊢
        have := (hD j hj k hk hop).1
        omega
      · exact absurd h hns
    · have : ∃ m, m < cfg.M ∧ s.remAt m ≠ 0 := by
        by_cases h2 : ∃ m, m < cfg.M ∧ s.remAt m ≠ 0
        · exact h2
        · exfalso; apply hnf'
          refine ⟨fun j hj k hk => ?_, fun m hm => ?_⟩
          · cases hm : s.maskAt j k
            · rfl
            · exact absurd ⟨j, hj, k, hk, hm⟩ hex
          · by_cases h3 : s.remAt m = 0
            · exact h3
            · exact absurd ⟨m, hm, h3⟩ h2
      obtain ⟨m, hm, hne⟩ := this
      obtain ⟨h0, hU, hA⟩ := hI.2.2.2.2 m hm
      obtain ⟨j, hj, k, hk, hs, hmid, _, he⟩ := hA (by omega)
      have hs' := (isSched_next cfg s a hI hL hj hk).2 (Or.inr hs)
      have hle := (hdone j hj k hk hs.1).2
      have hnh : ¬ Hit cfg s a j k := fun hh => hit_not_sched cfg s a hh hs
      refine ⟨j, hj, k, hk, hs', ?_⟩
      rw [endTime_next cfg s a hI hL hj hk, if_neg hnh, next_stepCount] at hle ⊢
      omega


theorem durationsOK_next (cfg : Cfg) (s : State) (a : List Int) (h : DurationsOK cfg s) :
    DurationsOK cfg (next cfg s a) := h

/-- along a legal episode that ends by completion: return + clock is conserved, and the final clock is
the makespan of the final schedule -/
theorem completes_return (cfg : Cfg) (as : List (List Int)) : ∀ (s : State), Inv cfg s →
    s.amask = maskOf cfg s → DurationsOK cfg s → CompletesBy cfg s as →
    (play cfg s as).2 + (((play cfg s as).1.stepCount : Int) : Rat) = ((s.stepCount : Int) : Rat) ∧
    makespan cfg (play cfg s as).1 = (play cfg s as).1.stepCount ∧ IsSolution cfg (play cfg s as).1 := by
  induction as with
  | nil => intro s _ _ _ h; exact h.elim
  | cons a as ih =>
    intro s hI hC hD hcb
    have key : ∀ (hL : legalAction cfg s a) (hidle : allIdle cfg (next cfg s a) = false),
        (step cfg s a).2.reward.sum + (((next cfg s a).stepCount : Int) : Rat) = ((s.stepCount : Int) : Rat) := by
      intro hL hidle
      have hv := (invalid_iff cfg s a hI hC (legalAction_inSpec cfg s a hL)).2 hL
      rw [(valid_step_reward cfg s a hv hidle).1, next_stepCount]
      have : (((s.stepCount + 1 : Int)) : Rat) = (s.stepCount : Rat) + 1 := by
        rw [Rat.intCast_add]; rfl
      rw [this]
      simp
      grind
    cases as with
    | nil =>
      obtain ⟨hL, hnf, hidle, hf⟩ := hcb
      have := completion_at_makespan cfg s a hI hL hD hnf hf
      refine ⟨?_, this.1, this.2⟩
      show (step cfg s a).2.reward.sum + 0 + _ = _
      rw [Rat.add_zero]
      exact key hL hidle
    | cons b bs =>
      obtain ⟨hL, hnf, hidle, hrest⟩ := hcb
      have hI' := inv_next cfg s a hI hL
      obtain ⟨h1, h2, h3⟩ := ih (next cfg s a) hI' (next_amask cfg s a) hD hrest
      refine ⟨?_, h2, h3⟩
      have hk := key hL hidle
      show (step cfg s a).2.reward.sum + (play cfg (next cfg s a) (b :: bs)).2 +
        (((play cfg (next cfg s a) (b :: bs)).1.stepCount : Int) : Rat) = _
      grind

/-- C08: an episode from a fresh instance (clock 0) that ends by completion under legal play has
return = −makespan of the final schedule -/
theorem return_eq_objective (cfg : Cfg) (s : State) (as : List (List Int)) (hI : Inv cfg s)
    (hC : s.amask = maskOf cfg s) (hD : DurationsOK cfg s) (h0 : s.stepCount = 0)
    (hcb : CompletesBy cfg s as) : (play cfg s as).2 = objective cfg (play cfg s as).1 := by
  obtain ⟨h1, h2, _⟩ := completes_return cfg as s hI hC hD hcb
  unfold objective
  rw [h2]
  rw [h0] at h1
  grind


/-! ### C11: progress -/

theorem sum_map_lt {α} (l : List α) (f g : α → Int) (hle : ∀ p, p ∈ l → g p ≤ f p)
    (hlt : ∃ p, p ∈ l ∧ g p + 1 ≤ f p) : (l.map g).sum + 1 ≤ (l.map f).sum := by
  induction l with
  | nil => obtain ⟨p, hp, _⟩ := hlt; simp at hp
  | cons x xs ih =>
    simp only [List.map_cons, List.sum_cons]
    have hx := hle x (by simp)
    have hle' : ∀ p, p ∈ xs → g p ≤ f p := fun p hp => hle p (by simp [hp])
    have hsum : (xs.map g).sum ≤ (xs.map f).sum := by
      clear ih hlt hle hx
      induction xs with
      | nil => simp
      | cons y ys ih2 =>
        simp only [List.map_cons, List.sum_cons]
        have := hle' y (by simp)
        have := ih2 (fun p hp => hle' p (by simp [hp]))
        omega
    obtain ⟨p, hp, hs⟩ := hlt
    rcases List.mem_cons.1 hp with h | h
    · subst h; omega
    · have := ih hle' ⟨p, h, hs⟩; omega

theorem mem_coords (cfg : Cfg) (p : Nat × Nat) :
    p ∈ ((List.range cfg.J).flatMap fun j => (List.range cfg.O).map fun k => (j, k)) ↔
      p.1 < cfg.J ∧ p.2 < cfg.O := by
  simp only [List.mem_flatMap, List.mem_map, List.mem_range]
  constructor
  · rintro ⟨j, hj, k, hk, rfl⟩; exact ⟨hj, hk⟩
  · rintro ⟨h1, h2⟩; exact ⟨p.1, h1, p.2, h2, rfl⟩

section progress
variable (cfg : Cfg) (s : State) (a : List Int) (hI : Inv cfg s) (hL : legalAction cfg s a)
  (hD : DurationsOK cfg s)
include hI hL hD

theorem opLeft_le {j k : Nat} (hj : j < cfg.J) (hk : k < cfg.O) :
    opLeft (next cfg s a) j k ≤ opLeft s j k ∧
    ((Hit cfg s a j k ∨ (isSched s j k ∧ s.stepCount < endTime s j k)) →
      opLeft (next cfg s a) j k + 1 ≤ opLeft s j k) := by
  unfold opLeft
  have hop : isOp (next cfg s a) j k ↔ isOp s j k := Iff.rfl
  have hs' := isSched_next cfg s a hI hL hj hk
  have he' := endTime_next cfg s a hI hL hj hk
  by_cases hH : Hit cfg s a j k
  · have hns := hit_not_sched cfg s a hH
    have hisop : isOp s j k := by obtain ⟨m, _, _, hn⟩ := hH; exact hn.2.1
    have hd := (hD j hj k hk hisop).1
    rw [if_pos (hs'.2 (Or.inl hH)), if_neg hns, if_pos hisop, he', if_pos hH, next_stepCount]
    constructor
    · omega
    · intro _; omega
  · by_cases hs : isSched s j k
    · rw [if_pos (hs'.2 (Or.inr hs)), if_pos hs, he', if_neg hH, next_stepCount]
      constructor
      · omega
      · rintro (h | ⟨_, h⟩)
        · exact absurd h hH
        · omega
    · have hns' : ¬ isSched (next cfg s a) j k := fun h => (hs'.1 h).elim hH hs
      rw [if_neg hns', if_neg hs, next_durAt]
      constructor
      · simp only [hop]; omega
      · rintro (h | ⟨h, _⟩)
        · exact absurd h hH
        · exact absurd h hs

/-- C11: every legal step that does not leave all machines idle consumes at least one unit of the
remaining operation time -/
theorem timeLeft_decreases (hidle : allIdle cfg (next cfg s a) = false) :
    timeLeft cfg (next cfg s a) + 1 ≤ timeLeft cfg s := by
  unfold timeLeft
  apply sum_map_lt
  · intro p hp
    obtain ⟨h1, h2⟩ := (mem_coords cfg p).1 hp
    exact (opLeft_le cfg s a hI hL hD h1 h2).1
  · -- a machine that is not idle afterwards worked on some op during this step
    unfold allIdle at hidle
    rw [List.all_eq_false] at hidle
    obtain ⟨m, hm, hne⟩ := hidle
    have hm := List.mem_range.1 hm
    obtain ⟨h0, hU, hA⟩ := hI.2.2.2.2 m hm
    rcases act_cases cfg s a hL hm with hno | ⟨j, hj, haj⟩
    · have hrem : (next cfg s a).remAt m = if s.remAt m > 0 then s.remAt m - 1 else 0 := by
        rw [next_remAt cfg s a hm]; simp [hno]
      have hjob : (next cfg s a).jobAt m = if s.remAt m = 0 then (cfg.J : Int) else s.jobAt m := by
        rw [next_jobAt cfg s a hm]; simp [hno]
      have hpos : 0 < s.remAt m := by
        by_cases h : s.remAt m = 0
        · exfalso; apply hne
          rw [hrem, hjob, h]; simp
        · omega
      obtain ⟨j, hj, k, hk, hs, hmid, _, he⟩ := hA hpos
      exact ⟨(j, k), (mem_coords cfg (j, k)).2 ⟨hj, hk⟩,
        (opLeft_le cfg s a hI hL hD hj hk).2 (Or.inr ⟨hs, by omega⟩)⟩
    · obtain ⟨_, _, k, hk, hn, _⟩ := legal_facts cfg s a hL hm hj haj
      exact ⟨(j, k), (mem_coords cfg (j, k)).2 ⟨hj, hk⟩,
        (opLeft_le cfg s a hI hL hD hj hk).2 (Or.inl ⟨m, hm, haj, hn⟩)⟩

omit hI hL in
theorem timeLeft_nonneg : 0 ≤ timeLeft cfg s := by
  unfold timeLeft
  have : ∀ l : List (Nat × Nat), (∀ p, p ∈ l → p.1 < cfg.J ∧ p.2 < cfg.O) →
      0 ≤ (l.map fun p => opLeft s p.1 p.2).sum := by
    intro l
    induction l with
    | nil => intro _; simp
    | cons x xs ih =>
      intro h
      simp only [List.map_cons, List.sum_cons]
      have := ih (fun p hp => h p (by simp [hp]))
      have hx := h x (by simp)
      have : 0 ≤ opLeft s x.1 x.2 := by
        unfold opLeft
        split
        · omega
        · split
          · rename_i hop; have := (hD x.1 hx.1 x.2 hx.2 hop).1; omega
          · omega
      omega
  exact this _ (fun p hp => (mem_coords cfg p).1 hp)

end progress

/-- C11: such play cannot last longer than the operation time still to be spent -/
theorem horizon (cfg : Cfg) (as : List (List Int)) : ∀ (s : State), Inv cfg s → DurationsOK cfg s →
    Survives cfg s as → (as.length : Int) ≤ timeLeft cfg s := by
  induction as with
  | nil => intro s _ hD _; simpa using timeLeft_nonneg cfg s hD
  | cons a as ih =>
    intro s hI hD ⟨hL, hidle, hrest⟩
    have h1 := timeLeft_decreases cfg s a hI hL hD hidle
    have h2 := ih (next cfg s a) (inv_next cfg s a hI hL) hD hrest
    simp only [List.length_cons]
    omega

theorem sum_map_le_const {α} (l : List α) (f : α → Int) (d : Int) (h : ∀ p, p ∈ l → f p ≤ d) :
    (l.map f).sum ≤ (l.length : Int) * d := by
  induction l with
  | nil => simp
  | cons x xs ih =>
    simp only [List.map_cons, List.sum_cons, List.length_cons]
    have := h x (by simp)
    have := ih (fun p hp => h p (by simp [hp]))
    have e : ((xs.length + 1 : Nat) : Int) * d = (xs.length : Int) * d + d := by
      rw [Int.natCast_add, Int.add_mul]; simp
    omega

/-- at the start of an episode the time to be spent is at most J·O·D -/
theorem timeLeft_init_le (cfg : Cfg) (s : State) (hD : DurationsOK cfg s)
    (hns : ∀ j, j < cfg.J → ∀ k, k < cfg.O → ¬ isSched s j k) :
    timeLeft cfg s ≤ ((cfg.J * cfg.O * cfg.D : Nat) : Int) := by
  unfold timeLeft
  have hlen : ((List.range cfg.J).flatMap fun j => (List.range cfg.O).map fun k => (j, k)).length
      = cfg.J * cfg.O := by
    generalize cfg.J = n
    induction n with
    | zero => simp
    | succ n ih => rw [List.range_succ, List.flatMap_append, List.length_append, ih]; simp [Nat.succ_mul]
  have := sum_map_le_const ((List.range cfg.J).flatMap fun j => (List.range cfg.O).map fun k => (j, k))
    (fun p => opLeft s p.1 p.2) (cfg.D : Int) (by
      intro p hp
      obtain ⟨h1, h2⟩ := (mem_coords cfg p).1 hp
      show opLeft s p.1 p.2 ≤ _
      unfold opLeft
      rw [if_neg (hns p.1 h1 p.2 h2)]
      split
      · rename_i hop; exact (hD p.1 h1 p.2 h2 hop).2
      · omega)
  rw [hlen] at this
  rw [Int.natCast_mul]
  exact this

end JobShop
