/-
JobShop, C08: how "schedule finished" and "all machines idle" interact at the end of an episode.

`step` ends an episode with the PENALTY when all machines are idle after the step
(`all_machines_idle`: every machine holds the no-op job id `J` and has remaining time 0) and with
the ordinary reward −1 when the schedule is finished (`schedule_finished`: no op left in `ops_mask`
and every remaining time 0).  `CompletesBy` (Model.lean) ASSUMED that at the completing step the
machines are not all idle.  Here this is PROVED: under legal play the step that finishes the schedule
leaves some machine with a real job id (the machine that ran the last op keeps its job id, because
`_update_machines` only writes the no-op id into machines whose remaining time WAS already 0), so
`all_machines_idle` is false, the completing step is rewarded −1, and the return theorem can be stated
over the episode as the environment sees it (`EndsByCompletion`: legal actions, every timestep but
the last is not LAST, the schedule is finished at the end).
-/
import JumanjiModel.Env.JobShop.Lemmas
set_option linter.unusedVariables false
set_option linter.unusedSimpArgs false
namespace JobShop
open Jm

/-- a machine whose job id is not the no-op id makes `all_machines_idle` false -/
theorem allIdle_false_of_job (cfg : Cfg) (s' : State) {m : Nat} (hm : m < cfg.M)
    (h : s'.jobAt m ≠ (cfg.J : Int)) : allIdle cfg s' = false := by
  cases hh : allIdle cfg s'
  · rfl
  · exfalso
    unfold allIdle at hh
    rw [List.all_eq_true] at hh
    have := hh m (List.mem_range.2 hm)
    simp only [Bool.and_eq_true, beq_iff_eq] at this
    exact h this.1

/-- a state that is not finished has an op left to schedule or a machine still running -/
theorem not_finished_cases (cfg : Cfg) (s : State) (hS : Shaped cfg s) (hnf : finished cfg s = false) :
    (∃ j, j < cfg.J ∧ ∃ k, k < cfg.O ∧ s.maskAt j k = true) ∨ (∃ m, m < cfg.M ∧ s.remAt m ≠ 0) := by
  by_cases hex : ∃ j, j < cfg.J ∧ ∃ k, k < cfg.O ∧ s.maskAt j k = true
  · exact Or.inl hex
  · by_cases h2 : ∃ m, m < cfg.M ∧ s.remAt m ≠ 0
    · exact Or.inr h2
    · exfalso
      have : finished cfg s = true := by
        rw [finished_iff_all cfg s hS]
        refine ⟨fun j hj k hk => ?_, fun m hm => ?_⟩
        · cases hm : s.maskAt j k
          · rfl
          · exact absurd ⟨j, hj, k, hk, hm⟩ hex
        · by_cases h3 : s.remAt m = 0
          · exact h3
          · exact absurd ⟨m, hm, h3⟩ h2
      rw [hnf] at this; exact Bool.noConfusion this

/-- THE INTERACTION: under a legal action from a state that is not finished, if the successor is
finished then some machine still carries a real job id, i.e. `all_machines_idle` is false there.
(No assumption on the durations.) -/
theorem finished_not_idle (cfg : Cfg) (s : State) (a : List Int) (hI : Inv cfg s)
    (hL : legalAction cfg s a) (hnf : finished cfg s = false) (hf : finished cfg (next cfg s a) = true) :
    allIdle cfg (next cfg s a) = false := by
  have hS' := shaped_next cfg s a hI.1
  obtain ⟨hall, hrem⟩ := (finished_iff_all cfg _ hS').1 hf
  rcases not_finished_cases cfg s hI.1 hnf with ⟨j, hj, k, hk, hm⟩ | ⟨m, hm, hne⟩
  · -- an op was still unscheduled: it is started by this action, its machine now holds job `j`
    have h1 := hall j hj k hk
    rw [next_maskAt cfg s a hj hk, hm, Bool.true_and] at h1
    have hhit : hit s a j k = true := by
      cases hh : hit s a j k
      · rw [hh] at h1; exact Bool.noConfusion h1
      · rfl
    obtain ⟨m, hmM, ham, _⟩ := (hit_iff cfg s a hI hL hj hk).1 hhit
    apply allIdle_false_of_job cfg _ hmM
    rw [next_jobAt cfg s a hmM]
    have : ¬ actAt a m = (cfg.J : Int) := by omega
    rw [if_neg this]; omega
  · -- a machine was still running: only the no-op is legal on it and it keeps its job id
    obtain ⟨h0, hU, hA⟩ := hI.2.2.2.2 m hm
    have hpos : 0 < s.remAt m := by omega
    obtain ⟨j, hj, k, hk, hs, hmid, hjob, he⟩ := hA hpos
    apply allIdle_false_of_job cfg _ hm
    rw [next_jobAt cfg s a hm]
    rcases act_cases cfg s a hL hm with hno | ⟨j', hj', haj⟩
    · rw [if_pos hno, if_neg hne, hjob]; omega
    · have : ¬ actAt a m = (cfg.J : Int) := by omega
      rw [if_neg this]; omega

/-- consequently the completing step of legal play is rewarded −1 (never the penalty) and is LAST -/
theorem completing_step (cfg : Cfg) (s : State) (a : List Int) (hI : Inv cfg s)
    (hC : s.amask = maskOf cfg s) (hL : legalAction cfg s a) (hnf : finished cfg s = false)
    (hf : finished cfg (next cfg s a) = true) :
    (step cfg s a).2.reward = [-1] ∧ (step cfg s a).2.stepType = .last := by
  have hv := (invalid_iff cfg s a hI hC (legalAction_inSpec cfg s a hL)).2 hL
  have hidle := finished_not_idle cfg s a hI hL hnf hf
  obtain ⟨h1, _, h3⟩ := valid_step_reward cfg s a hv hidle
  exact ⟨h1, h3.2 hf⟩

/-- conversely: the two ways a legal step can end the episode exclude each other -/
theorem idle_xor_finished (cfg : Cfg) (s : State) (a : List Int) (hI : Inv cfg s)
    (hL : legalAction cfg s a) (hnf : finished cfg s = false) :
    ¬ (allIdle cfg (next cfg s a) = true ∧ finished cfg (next cfg s a) = true) := by
  rintro ⟨h1, h2⟩
  rw [finished_not_idle cfg s a hI hL hnf h2] at h1
  exact Bool.noConfusion h1

/-- a legal step whose timestep is not LAST: machines not all idle, schedule not finished -/
theorem mid_step_facts (cfg : Cfg) (s : State) (a : List Int)
    (h : (step cfg s a).2.stepType ≠ .last) :
    allIdle cfg (next cfg s a) = false ∧ finished cfg (next cfg s a) = false := by
  unfold step condLast at h
  simp only [] at h
  cases hi : allIdle cfg (next cfg s a) <;> cases hf : finished cfg (next cfg s a) <;>
    simp [hi, hf, termination] at h ⊢

/-- an episode as the environment sees it: every action legal, every timestep before the last one is
not LAST, and the schedule is finished after the last action -/
def EndsByCompletion (cfg : Cfg) : State → List (List Int) → Prop
  | _, [] => False
  | s, [a] => legalAction cfg s a ∧ finished cfg (next cfg s a) = true
  | s, a :: b :: as => legalAction cfg s a ∧ (step cfg s a).2.stepType ≠ .last ∧
      EndsByCompletion cfg (next cfg s a) (b :: as)

/-- `CompletesBy` (with its assumption "not all machines idle at every step, the completing one
included") follows from `EndsByCompletion` on reachable states -/
theorem completesBy_of_ends (cfg : Cfg) (as : List (List Int)) : ∀ (s : State), Inv cfg s →
    finished cfg s = false → EndsByCompletion cfg s as → CompletesBy cfg s as := by
  induction as with
  | nil => intro s _ _ h; exact h.elim
  | cons a as ih =>
    intro s hI hnf h
    cases as with
    | nil =>
      obtain ⟨hL, hf⟩ := h
      exact ⟨hL, hnf, finished_not_idle cfg s a hI hL hnf hf, hf⟩
    | cons b bs =>
      obtain ⟨hL, hmid, hrest⟩ := h
      obtain ⟨hidle, hnf'⟩ := mid_step_facts cfg s a hmid
      exact ⟨hL, hnf, hidle, ih (next cfg s a) (inv_next cfg s a hI hL) hnf' hrest⟩

/-- C08 restated without the leftover hypothesis: from a fresh, not yet finished instance (clock 0) a
legal episode that ends with a finished schedule has return = −makespan; its final state is a
complete feasible solution; and the last timestep is LAST with reward −1 -/
theorem return_eq_objective' (cfg : Cfg) (s : State) (as : List (List Int)) (hI : Inv cfg s)
    (hC : s.amask = maskOf cfg s) (hD : DurationsOK cfg s) (h0 : s.stepCount = 0)
    (hnf : finished cfg s = false) (he : EndsByCompletion cfg s as) :
    (play cfg s as).2 = objective cfg (play cfg s as).1 ∧ IsSolution cfg (play cfg s as).1 := by
  have hcb := completesBy_of_ends cfg as s hI hnf he
  exact ⟨return_eq_objective cfg s as hI hC hD h0 hcb, (completes_return cfg as s hI hC hD hcb).2.2⟩

end JobShop
