/-
JobShop: the generators (C10) — `RandomGenerator` transliterated with its draws as parameters satisfies the
certificate for all valid draws, the certificate implies the advertised invariants, the toy instance — and
whole-episode feasibility (C06).
-/
import JumanjiModel.Env.JobShop.SpecLemmas
namespace JobShop
open Jm

theorem genPad_length (cfg : Cfg) (draw : List (List Int)) (numOps : List Int) :
    (genPad cfg draw numOps).length = cfg.J ∧
    ∀ j, j < cfg.J → ((genPad cfg draw numOps).getD j []).length = cfg.O := by
  refine ⟨by simp [genPad], ?_⟩
  intro j hj
  unfold genPad
  rw [getD_map_range cfg.J _ _ hj]; simp

theorem genPad_at (cfg : Cfg) (draw : List (List Int)) (numOps : List Int) {j k : Nat} (hj : j < cfg.J)
    (hk : k < cfg.O) :
    at2 (genPad cfg draw numOps) (-1) j k = if genMask numOps j k then at2 draw (-1) j k else -1 := by
  unfold genPad
  exact at2_map_range cfg.J cfg.O (fun j k => if genMask numOps j k then at2 draw (-1) j k else -1) (-1) hj hk

theorem init_maskAt (cfg : Cfg) (mid dur : List (List Int)) (j k : Nat) :
    (initState cfg mid dur).maskAt j k = (at2 mid (-1) j k != -1) := by
  show at2 (mid.map (fun row => row.map (fun x => x != -1))) false j k = (at2 mid (-1) j k != -1)
  unfold at2
  simp only [List.getD_eq_getElem?_getD, List.getElem?_map]
  cases h : mid[j]? with
  | none => simp
  | some row => cases h2 : row[k]? <;> simp [h2]

/-- C10: for every configuration and every valid draw the transliterated `RandomGenerator` + `reset` mask gives a
state satisfying the certificate -/
theorem generate_cert (cfg : Cfg) (midDraw durDraw : List (List Int)) (numOps : List Int)
    (h : validGenDraw cfg midDraw durDraw numOps) : GenCert cfg (generate cfg midDraw durDraw numOps) := by
  obtain ⟨hmid, hdur, hops⟩ := h
  have hlm := genPad_length cfg midDraw numOps
  have hld := genPad_length cfg durDraw numOps
  have hmidAt : ∀ j, j < cfg.J → ∀ k, k < cfg.O → (generate cfg midDraw durDraw numOps).midAt j k =
      if genMask numOps j k then at2 midDraw (-1) j k else -1 := fun j hj k hk => genPad_at cfg midDraw numOps hj hk
  have hdurAt : ∀ j, j < cfg.J → ∀ k, k < cfg.O → (generate cfg midDraw durDraw numOps).durAt j k =
      if genMask numOps j k then at2 durDraw (-1) j k else -1 := fun j hj k hk => genPad_at cfg durDraw numOps hj hk
  have hM : MachinesOK cfg (generate cfg midDraw durDraw numOps) := by
    intro j hj k hk hop
    unfold isOp at hop
    rw [hmidAt j hj k hk] at hop ⊢
    by_cases hg : genMask numOps j k = true
    · simp only [hg, if_true]; exact hmid j hj k hk
    · simp [hg] at hop
  have hI : Inv cfg (generate cfg midDraw durDraw numOps) := init_inv cfg _ _ hlm hld hM
  refine ⟨hI.1, ?_, rfl, rfl, rfl, rfl, ?_⟩
  · intro j hj
    obtain ⟨h1, h2⟩ := hops j hj
    refine ⟨(numOps.getD j 0).toNat, by omega, by omega, ?_⟩
    intro k hk
    have hmk : (generate cfg midDraw durDraw numOps).maskAt j k =
        ((generate cfg midDraw durDraw numOps).midAt j k != -1) := init_maskAt cfg _ _ j k
    rw [hmk, hmidAt j hj k hk, hdurAt j hj k hk]
    constructor
    · intro hlt
      have hg : genMask numOps j k = true := by unfold genMask; exact decide_eq_true (by omega)
      simp only [hg, if_true]
      have := hmid j hj k hk
      have := hdur j hj k hk
      refine ⟨by omega, by omega, by omega, by omega, ?_⟩
      simp; omega
    · intro hge
      have hg : genMask numOps j k = false := by unfold genMask; exact decide_eq_false (by omega)
      simp [hg]
  · show (generate cfg midDraw durDraw numOps).amask = _
    rw [← maskOf_eq_legalTable cfg _ hI]; rfl

/-- certificate ⇒ the instance-level invariants: every op names a machine of the shop, every real op takes between
1 and `D` steps, padding is consistent (−1 machine iff −1 duration, real ops form a prefix), every job has an op -/
theorem cert_instance (cfg : Cfg) (s : State) (h : GenCert cfg s) :
    MachinesOK cfg s ∧ DurationsOK cfg s ∧ PaddingOK cfg s ∧ (∀ j, j < cfg.J → isOp s j 0 ∧ 0 < cfg.O) := by
  obtain ⟨_, hrows, _⟩ := h
  refine ⟨?_, ?_, ?_, ?_⟩
  · intro j hj k hk hop
    obtain ⟨p, _, _, hrow⟩ := hrows j hj
    obtain ⟨hreal, hpad⟩ := hrow k hk
    unfold isOp at hop
    by_cases hkp : k < p
    · have := hreal hkp; omega
    · have := hpad (by omega); omega
  · intro j hj k hk hop
    obtain ⟨p, _, _, hrow⟩ := hrows j hj
    obtain ⟨hreal, hpad⟩ := hrow k hk
    unfold isOp at hop
    by_cases hkp : k < p
    · have := hreal hkp; omega
    · have := hpad (by omega); omega
  · intro j hj k hk
    obtain ⟨p, _, _, hrow⟩ := hrows j hj
    obtain ⟨hreal, hpad⟩ := hrow k hk
    constructor
    · by_cases hkp : k < p
      · have := hreal hkp; omega
      · have := hpad (by omega); omega
    · intro hop k' hk'
      unfold isOp at hop ⊢
      have hkp : k < p := by
        by_cases hkp : k < p
        · exact hkp
        · have := hpad (by omega); omega
      have := ((hrow k' (by omega)).1 (by omega)); omega
  · intro j hj
    obtain ⟨p, hp, hp1, hrow⟩ := hrows j hj
    have hO : 0 < cfg.O := by omega
    refine ⟨?_, hO⟩
    unfold isOp
    have := (hrow 0 hO).1 (by omega); omega

/-- certificate ⇒ the state is exactly the fresh state built around its instance arrays, and satisfies the
invariant of legal play with a fresh cached mask -/
theorem cert_state (cfg : Cfg) (s : State) (h : GenCert cfg s) :
    s = initState cfg s.mid s.dur ∧ Inv cfg s ∧ s.amask = maskOf cfg s := by
  have hinst := cert_instance cfg s h
  obtain ⟨hS, hrows, hjob, hrem, hsched, hclock, hamask⟩ := h
  -- ops_mask is `ops_machine_ids != -1`
  have hmask : s.opsMask = s.mid.map (fun row => row.map (fun x => x != -1)) := by
    apply List.ext_getElem
    · simp [hS.1, hS.2.2.1]
    · intro j h1 h2
      have hj : j < cfg.J := by rw [← hS.2.2.1]; exact h1
      have hl := hS.2.2.2.2.1 j hj
      have hjm : j < s.mid.length := by rw [hS.1]; exact hj
      simp only [List.getD_eq_getElem?_getD, List.getElem?_eq_getElem h1, List.getElem?_eq_getElem hjm,
        Option.getD_some] at hl
      rw [List.getElem_map]
      apply List.ext_getElem
      · simp [hl.1, hl.2.2.1]
      · intro k hk1 hk2
        have hk : k < cfg.O := by rw [← hl.2.2.1]; exact hk1
        have hkm : k < s.mid[j].length := by rw [hl.1]; exact hk
        obtain ⟨p, _, _, hrow⟩ := hrows j hj
        obtain ⟨hreal, hpad⟩ := hrow k hk
        have e1 : s.maskAt j k = s.opsMask[j][k] := by
          simp [State.maskAt, at2, List.getD_eq_getElem?_getD, List.getElem?_eq_getElem h1,
            List.getElem?_eq_getElem hk1]
        have e2 : s.midAt j k = s.mid[j][k] := by
          simp [State.midAt, at2, List.getD_eq_getElem?_getD, List.getElem?_eq_getElem hjm,
            List.getElem?_eq_getElem hkm]
        rw [List.getElem_map, ← e1, ← e2]
        by_cases hkp : k < p
        · have := hreal hkp
          rw [this.2.2.2.2]; simp; omega
        · have := hpad (by omega)
          rw [this.2.2, this.1]; simp
  have hfields : {s with amask := (initState cfg s.mid s.dur).amask} = initState cfg s.mid s.dur := by
    cases s
    simp only [initState] at hmask hjob hrem hsched hclock ⊢
    subst hmask hjob hrem hsched hclock
    rfl
  have hI0 : Inv cfg (initState cfg s.mid s.dur) := by
    refine init_inv cfg s.mid s.dur ⟨hS.1, fun j hj => (hS.2.2.2.2.1 j hj).1⟩
      ⟨hS.2.1, fun j hj => (hS.2.2.2.2.1 j hj).2.1⟩ ?_
    intro j hj k hk hop
    exact hinst.1 j hj k hk hop
  have hlt : legalTable cfg s = legalTable cfg (initState cfg s.mid s.dur) := by
    rw [← hfields]; rfl
  have hs : s = initState cfg s.mid s.dur := by
    have : s.amask = (initState cfg s.mid s.dur).amask := by
      rw [hamask, hlt, ← maskOf_eq_legalTable cfg _ hI0]; rfl
    rw [← hfields]
    cases s
    simp only [] at this
    subst this
    rfl
  refine ⟨hs, ?_, ?_⟩
  · rw [hs]; exact hI0
  · rw [hamask, hlt, ← maskOf_eq_legalTable cfg _ hI0]
    conv => rhs; rw [hs]

/-! ### whole episodes -/

/-- every joint action of the list is legal (L2) when its turn comes -/
def AllLegal (cfg : Cfg) : State → List (List Int) → Prop
  | _, [] => True
  | s, a :: as => legalAction cfg s a ∧ AllLegal cfg (next cfg s a) as

/-- mask-respecting: an in-spec joint action each of whose choices has its bit set in the action mask of the
observation current at its turn -/
def Masked (cfg : Cfg) (s : State) (a : List Int) : Prop :=
  InSpec cfg a ∧ ∀ m, m < cfg.M → at2 (obsOf s).amask false m (actAt a m).toNat = true

def AllMasked (cfg : Cfg) : State → List (List Int) → Prop
  | _, [] => True
  | s, a :: as => Masked cfg s a ∧ AllMasked cfg (next cfg s a) as

theorem masked_legal (cfg : Cfg) (s : State) (a : List Int) (hI : Inv cfg s) (hC : s.amask = maskOf cfg s)
    (h : Masked cfg s a) : legalAction cfg s a := by
  obtain ⟨hA, hm⟩ := h
  refine ⟨hA.1, fun m hmM => ⟨(hA.2 m hmM).1, ?_⟩⟩
  have := hm m hmM
  have hc : (actAt a m).toNat ≤ cfg.J := by have := hA.2 m hmM; omega
  show legal cfg s m (actAt a m).toNat
  rw [← mask_iff_legal cfg s hI hmM hc, ← hC]
  exact this

theorem allLegal_take (cfg : Cfg) (as : List (List Int)) :
    ∀ s k, AllLegal cfg s as → AllLegal cfg s (as.take k) := by
  induction as with
  | nil => intro s k h; simpa using h
  | cons a as ih =>
    intro s k h
    cases k with
    | zero => simp [AllLegal]
    | succ k => simp only [List.take_succ_cons, AllLegal] at h ⊢; exact ⟨h.1, ih _ k h.2⟩

theorem inv_play (cfg : Cfg) (as : List (List Int)) :
    ∀ s, Inv cfg s → AllLegal cfg s as → Inv cfg (play cfg s as).1 := by
  induction as with
  | nil => intro s hI _; simpa [play] using hI
  | cons a as ih =>
    intro s hI hal
    simp only [AllLegal] at hal
    simp only [play]
    exact ih _ (inv_next cfg s a hI hal.1) hal.2

theorem allMasked_allLegal (cfg : Cfg) (as : List (List Int)) :
    ∀ s, Inv cfg s → s.amask = maskOf cfg s → AllMasked cfg s as → AllLegal cfg s as := by
  induction as with
  | nil => intro s _ _ _; simp [AllLegal]
  | cons a as ih =>
    intro s hI hC h
    simp only [AllMasked] at h
    have hl := masked_legal cfg s a hI hC h.1
    exact ⟨hl, ih _ (inv_next cfg s a hI hl) (next_amask cfg s a) h.2⟩

/-- the invariant (hence the hard constraints) after every prefix of a legal sequence -/
theorem feasible_along (cfg : Cfg) (s : State) (as : List (List Int)) (hI : Inv cfg s)
    (hal : AllLegal cfg s as) (k : Nat) : Inv cfg (play cfg s (as.take k)).1 :=
  inv_play cfg _ s hI (allLegal_take cfg as s k hal)

end JobShop

/-! ### the toy instance: 8 is a lower bound on the length of every complete feasible schedule -/

namespace JobShop

/-- Machine 0 of the toy instance must process five ops — (1,2), (3,0), (3,2), (3,3), (4,1) — whose durations add up
to 8, one at a time, none before time 0: in ANY feasible schedule of the toy instance in which every real op is
scheduled, some op ends at or after time 8 (stated as: every common bound `T` on the completion times is ≥ 8). -/
theorem toy_lower_bound (s : State) (hm : s.mid = toyMid) (hd : s.dur = toyDur) (hF : Feasible toyCfg s)
    (hall : ∀ j, j < 5 → ∀ k, k < 4 → isOp s j k → isSched s j k) (T : Int)
    (hT : ∀ j, j < 5 → ∀ k, k < 4 → isSched s j k → endTime s j k ≤ T) : 8 ≤ T := by
  obtain ⟨_, hP, hJ, hMch⟩ := hF
  have mid : ∀ j k, s.midAt j k = at2 toyMid (-1) j k := fun j k => by simp [State.midAt, hm]
  have dur : ∀ j k, s.durAt j k = at2 toyDur (-1) j k := fun j k => by simp [State.durAt, hd]
  have op : ∀ j k, at2 toyMid (-1) j k ≠ -1 → isOp s j k := fun j k h => by unfold isOp; rw [mid]; exact h
  have sa := hall 1 (by decide) 2 (by decide) (op 1 2 (by decide))
  have sb := hall 3 (by decide) 0 (by decide) (op 3 0 (by decide))
  have sc := hall 3 (by decide) 2 (by decide) (op 3 2 (by decide))
  have sd := hall 3 (by decide) 3 (by decide) (op 3 3 (by decide))
  have se := hall 4 (by decide) 1 (by decide) (op 4 1 (by decide))
  have pa := hP 1 (by decide) 2 (by decide) sa
  have pb := hP 3 (by decide) 0 (by decide) sb
  have pe := hP 4 (by decide) 1 (by decide) se
  have ta := hT 1 (by decide) 2 (by decide) sa
  have tb := hT 3 (by decide) 0 (by decide) sb
  have tc := hT 3 (by decide) 2 (by decide) sc
  have td := hT 3 (by decide) 3 (by decide) sd
  have te := hT 4 (by decide) 1 (by decide) se
  have obc := (hJ 3 (by decide) 2 (by decide) 0 (by decide) sb.1 sc).2
  have ocd := (hJ 3 (by decide) 3 (by decide) 2 (by decide) sc.1 sd).2
  have m0 : ∀ j k, at2 toyMid (-1) j k = 0 → s.midAt j k = 0 := fun j k h => by rw [mid]; exact h
  have dab := hMch 1 (by decide) 2 (by decide) 3 (by decide) 0 (by decide) sa sb
    (by rw [m0 1 2 (by decide), m0 3 0 (by decide)]) (by decide)
  have dac := hMch 1 (by decide) 2 (by decide) 3 (by decide) 2 (by decide) sa sc
    (by rw [m0 1 2 (by decide), m0 3 2 (by decide)]) (by decide)
  have dad := hMch 1 (by decide) 2 (by decide) 3 (by decide) 3 (by decide) sa sd
    (by rw [m0 1 2 (by decide), m0 3 3 (by decide)]) (by decide)
  have dae := hMch 1 (by decide) 2 (by decide) 4 (by decide) 1 (by decide) sa se
    (by rw [m0 1 2 (by decide), m0 4 1 (by decide)]) (by decide)
  have deb := hMch 4 (by decide) 1 (by decide) 3 (by decide) 0 (by decide) se sb
    (by rw [m0 4 1 (by decide), m0 3 0 (by decide)]) (by decide)
  have dec := hMch 4 (by decide) 1 (by decide) 3 (by decide) 2 (by decide) se sc
    (by rw [m0 4 1 (by decide), m0 3 2 (by decide)]) (by decide)
  have ded := hMch 4 (by decide) 1 (by decide) 3 (by decide) 3 (by decide) se sd
    (by rw [m0 4 1 (by decide), m0 3 3 (by decide)]) (by decide)
  have d12 : s.durAt 1 2 = 1 := by rw [dur]; decide
  have d30 : s.durAt 3 0 = 4 := by rw [dur]; decide
  have d32 : s.durAt 3 2 = 1 := by rw [dur]; decide
  have d33 : s.durAt 3 3 = 1 := by rw [dur]; decide
  have d41 : s.durAt 4 1 = 1 := by rw [dur]; decide
  simp only [endTime, d12, d30, d32, d33, d41] at ta tb tc td te obc ocd dab dac dad dae deb dec ded
  omega

end JobShop
