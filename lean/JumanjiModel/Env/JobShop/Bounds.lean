/-
JobShop: proved value bounds of the observation (property C01).

`obsBounds cfg` = the interval in which every leaf of the model's observation provably stays (keys =
the leaf paths of `JobShop.observation_spec`); `obsLeaves` = the observation flattened to those
leaves.  `reset` = `JobShop.reset` with either shipped generator, the instance arrays
`ops_machine_ids`, `ops_durations` being draw parameters; `validDraw` = what the generators can
produce (shape `J × O`, machine ids in `[-1, M-1]`, durations in `[-1, D]`).

`BInv` (a small self-contained bounds invariant: the instance arrays and the two machine vectors lie
in their intervals) is established by `reset` and preserved by `step` for every action whose entries
are job ids or the no-op (`0 ≤ a[m] ≤ J` for `m < M`, i.e. every action of the action spec) — valid
or not, terminal step included.

`machines_remaining_times` is proved to stay in `[0, D-1]` (`[0, 0]` for `D = 0`): `_update_machines`
decrements a freshly started op's duration in the same step, so the declared maximum `D` is never
attained.
-/
import JumanjiModel.Env.JobShop.Model
import JumanjiModel.Core.ObsBoundsCO
namespace JobShop
open Jm Jm.OB

/-- integers as rationals -/
def ints (xs : List Int) : List Rat := xs.map fun (x : Int) => ((x : Int) : Rat)

/-- proved intervals, functions of the configuration only -/
def obsBounds (cfg : Cfg) : Table :=
  [("ops_machine_ids", some (((-1 : Int) : Int) : Rat), some (((cfg.M : Int) - 1 : Int) : Rat)),
   ("ops_durations", some (((-1 : Int) : Int) : Rat), some (((cfg.D : Int) : Int) : Rat)),
   ("ops_mask", some 0, some 1),
   ("machines_job_ids", some (((0 : Int) : Int) : Rat), some (((cfg.J : Int) : Int) : Rat)),
   ("machines_remaining_times", some (((0 : Int) : Int) : Rat), some ((((cfg.D - 1 : Nat) : Int) : Int) : Rat)),
   ("action_mask", some 0, some 1)]

def obsLeaves (o : Obs) : Leaves :=
  [("ops_machine_ids", ints o.mid.flatten), ("ops_durations", ints o.dur.flatten),
   ("ops_mask", o.opsMask.flatten.map b2r),
   ("machines_job_ids", ints o.mjob), ("machines_remaining_times", ints o.mrem),
   ("action_mask", o.amask.flatten.map b2r)]

/-- `JobShop.reset`: the generator's instance arrays are draw parameters -/
def reset (cfg : Cfg) (mid dur : List (List Int)) : State × TimeStep Obs :=
  (initState cfg mid dur, restart (obsOf (initState cfg mid dur)))

/-- every entry of a 2-d array lies in `[lo, hi]` -/
def GridIn (g : List (List Int)) (lo hi : Int) : Prop := ∀ row ∈ g, ∀ x ∈ row, lo ≤ x ∧ x ≤ hi
/-- every entry of a vector lies in `[lo, hi]` -/
def VecIn (v : List Int) (lo hi : Int) : Prop := ∀ x ∈ v, lo ≤ x ∧ x ≤ hi

instance (g : List (List Int)) (lo hi : Int) : Decidable (GridIn g lo hi) := by unfold GridIn; infer_instance
instance (v : List Int) (lo hi : Int) : Decidable (VecIn v lo hi) := by unfold VecIn; infer_instance

/-- what `RandomGenerator` (`randint(0, M)`, `randint(1, D+1)`, padding −1) and `ToyGenerator` can
produce: shape `J × O`, machine ids in `[-1, M-1]`, durations in `[-1, D]` -/
def validDraw (cfg : Cfg) (mid dur : List (List Int)) : Prop :=
  mid.length = cfg.J ∧ dur.length = cfg.J ∧ (∀ row ∈ mid, row.length = cfg.O) ∧
  (∀ row ∈ dur, row.length = cfg.O) ∧
  GridIn mid (-1) ((cfg.M : Int) - 1) ∧ GridIn dur (-1) (cfg.D : Int)

instance (cfg : Cfg) (mid dur : List (List Int)) : Decidable (validDraw cfg mid dur) := by
  unfold validDraw; infer_instance

/-- the bounds invariant -/
def BInv (cfg : Cfg) (s : State) : Prop :=
  GridIn s.mid (-1) ((cfg.M : Int) - 1) ∧ GridIn s.dur (-1) (cfg.D : Int) ∧
  VecIn s.mjob 0 (cfg.J : Int) ∧ VecIn s.mrem 0 ((cfg.D - 1 : Nat) : Int)

instance (cfg : Cfg) (s : State) : Decidable (BInv cfg s) := by unfold BInv; infer_instance

/-- the action entries read by `step` are job ids or the no-op (implied by `InSpec`) -/
def ActIn (cfg : Cfg) (a : List Int) : Prop :=
  ∀ m, m < cfg.M → 0 ≤ actAt a m ∧ actAt a m ≤ (cfg.J : Int)

instance (cfg : Cfg) (a : List Int) : Decidable (ActIn cfg a) := by unfold ActIn; infer_instance

theorem actIn_of_inSpec (cfg : Cfg) (a : List Int) (h : InSpec cfg a) : ActIn cfg a := h.2

/-! ### generic helpers -/

theorem getD_eq_or_mem {α} (xs : List α) (d : α) (k : Nat) : xs.getD k d = d ∨ xs.getD k d ∈ xs := by
  rw [List.getD_eq_getElem?_getD]
  cases h : xs[k]? with
  | none => left; rfl
  | some v => right; exact List.mem_of_getElem? h

theorem getWC_eq_or_mem {α} (xs : List α) (d : α) (i : Int) :
    Jx.getWC xs d i = d ∨ Jx.getWC xs d i ∈ xs := getD_eq_or_mem _ _ _

theorem ints_in (xs : List Int) (lo hi : Int) (h : VecIn xs lo hi) :
    ∀ v ∈ ints xs, inIv (some ((lo : Int) : Rat)) (some ((hi : Int) : Rat)) v := by
  intro v hv
  rcases List.mem_map.mp hv with ⟨x, hx, rfl⟩
  exact ⟨Rat.intCast_le_intCast.mpr (h x hx).1, Rat.intCast_le_intCast.mpr (h x hx).2⟩

theorem ints2_in (g : List (List Int)) (lo hi : Int) (h : GridIn g lo hi) :
    ∀ v ∈ ints g.flatten, inIv (some ((lo : Int) : Rat)) (some ((hi : Int) : Rat)) v := by
  apply ints_in
  intro x hx
  rcases List.mem_flatten.mp hx with ⟨row, hr, hxr⟩
  exact h row hr x hxr

/-! ### the invariant gives the bounds -/

theorem obsOf_in_bounds (cfg : Cfg) (s : State) (h : BInv cfg s) :
    InBounds (obsBounds cfg) (obsLeaves (obsOf s)) := by
  refine inBounds_cons _ _ _ _ _ _ rfl (ints2_in _ _ _ h.1) <|
    inBounds_cons _ _ _ _ _ _ rfl (ints2_in _ _ _ h.2.1) <|
    inBounds_cons _ _ _ _ _ _ rfl (bools_in01 _) <|
    inBounds_cons _ _ _ _ _ _ rfl (ints_in _ _ _ h.2.2.1) <|
    inBounds_cons _ _ _ _ _ _ rfl (ints_in _ _ _ h.2.2.2) <|
    inBounds_cons _ _ _ _ _ _ rfl (bools_in01 _) <| inBounds_nil _

/-! ### reset establishes the invariant -/

theorem reset_binv (cfg : Cfg) (mid dur : List (List Int)) (h : validDraw cfg mid dur) :
    BInv cfg (reset cfg mid dur).1 := by
  refine ⟨h.2.2.2.2.1, h.2.2.2.2.2, ?_, ?_⟩
  · intro x hx
    have : x = (cfg.J : Int) := by
      simp only [reset, initState] at hx; exact (List.mem_replicate.mp hx).2
    subst this; omega
  · intro x hx
    have : x = 0 := by
      simp only [reset, initState] at hx; exact (List.mem_replicate.mp hx).2
    subst this; omega

/-! ### step preserves the invariant -/

theorem jobAt_in (cfg : Cfg) (s : State) (h : BInv cfg s) (m : Nat) :
    0 ≤ s.jobAt m ∧ s.jobAt m ≤ (cfg.J : Int) := by
  unfold State.jobAt
  rcases getD_eq_or_mem s.mjob 0 m with he | hm
  · rw [he]; omega
  · exact h.2.2.1 _ hm

theorem remAt_in (cfg : Cfg) (s : State) (h : BInv cfg s) (m : Nat) :
    0 ≤ s.remAt m ∧ s.remAt m ≤ ((cfg.D - 1 : Nat) : Int) := by
  unfold State.remAt
  rcases getD_eq_or_mem s.mrem 0 m with he | hm
  · rw [he]; omega
  · exact h.2.2.2 _ hm

/-- the gathered duration `ops_durations[a, op_ids[a]]` is an entry of `ops_durations` (or 0 for an
empty array) -/
theorem selDur_in (cfg : Cfg) (s : State) (h : BInv cfg s) (ids : List Nat) (am : Int) :
    -1 ≤ selDur s ids am ∧ selDur s ids am ≤ (cfg.D : Int) := by
  unfold selDur Jx.Grid.getWC
  generalize ((Jx.getWC ids 0 am : Nat) : Int) = c
  rcases getWC_eq_or_mem s.dur [] am with he | hrow
  · rw [he]
    have : Jx.getWC ([] : List Int) 0 c = 0 := by simp [Jx.getWC]
    rw [this]; omega
  · rcases getWC_eq_or_mem (Jx.getWC s.dur [] am) 0 c with he | hx
    · rw [he]; omega
    · exact h.2.1 _ hrow _ hx

theorem updJob_in (cfg : Cfg) (s : State) (a : List Int) (h : BInv cfg s) (ha : ActIn cfg a) :
    VecIn (updJob cfg s a) 0 (cfg.J : Int) := by
  intro x hx
  simp only [updJob, List.mem_map, List.mem_range] at hx
  rcases hx with ⟨m, hm, rfl⟩
  have h1 := ha m hm
  have h2 := jobAt_in cfg s h m
  repeat' split
  all_goals omega

theorem updRem_in (cfg : Cfg) (s : State) (a : List Int) (h : BInv cfg s) :
    VecIn (updRem cfg s a) 0 ((cfg.D - 1 : Nat) : Int) := by
  intro x hx
  simp only [updRem, List.mem_map, List.mem_range] at hx
  rcases hx with ⟨m, _, rfl⟩
  have h1 := remAt_in cfg s h m
  have h2 := selDur_in cfg s h (opIds s.opsMask) (actAt a m)
  repeat' split
  all_goals omega

theorem step_binv (cfg : Cfg) (s : State) (a : List Int) (h : BInv cfg s) (ha : ActIn cfg a) :
    BInv cfg (step cfg s a).1 :=
  ⟨h.1, h.2.1, updJob_in cfg s a h ha, updRem_in cfg s a h⟩

theorem step_obs (cfg : Cfg) (s : State) (a : List Int) :
    (step cfg s a).2.obs = obsOf (step cfg s a).1 := by
  simp only [step]; exact condLast_obs _ _ _

/-! ### the bounds along an episode -/

theorem reset_obs_in_bounds (cfg : Cfg) (mid dur : List (List Int)) (h : validDraw cfg mid dur) :
    InBounds (obsBounds cfg) (obsLeaves (reset cfg mid dur).2.obs) :=
  obsOf_in_bounds cfg _ (reset_binv cfg mid dur h)

theorem step_obs_in_bounds (cfg : Cfg) (s : State) (a : List Int) (h : BInv cfg s)
    (ha : ActIn cfg a) : InBounds (obsBounds cfg) (obsLeaves (step cfg s a).2.obs) := by
  rw [step_obs]; exact obsOf_in_bounds cfg _ (step_binv cfg s a h ha)

end JobShop
