/-
JobShop: the transliterated step (L1, `step`) equals the rule-level step (L2, `stepSpec`, Spec.lean)
on every state of legal play (`Inv`, fresh cached mask) under every legal joint action:
`JobShop.step_eq_spec`.  For an in-spec action that is not legal, both agree on the step type (LAST),
the reward (the penalty) and the discount (0): `JobShop.step_illegal_spec`.
-/
import JumanjiModel.Env.JobShop.Spec
import JumanjiModel.Env.JobShop.Lemmas
import JumanjiModel.Env.JobShop.CompletionLemmas
set_option linter.unusedVariables false
set_option linter.unusedSimpArgs false
namespace JobShop
open Jm

/-! ### the quantities of the rules read the instance, the start times and the clock only -/

/-- same instance, same start times, same clock -/
def SameSched (s1 s2 : State) : Prop :=
  s1.mid = s2.mid ∧ s1.dur = s2.dur ∧ s1.sched = s2.sched ∧ s1.stepCount = s2.stepCount

theorem same_isOp {s1 s2 : State} (h : SameSched s1 s2) (j k : Nat) : isOp s1 j k ↔ isOp s2 j k := by
  obtain ⟨h1, h2, h3, h4⟩ := h
  cases s1; cases s2; dsimp only at h1 h2 h3 h4; subst h1 h2 h3 h4; exact Iff.rfl

theorem same_isSched {s1 s2 : State} (h : SameSched s1 s2) (j k : Nat) :
    isSched s1 j k ↔ isSched s2 j k := by
  obtain ⟨h1, h2, h3, h4⟩ := h
  cases s1; cases s2; dsimp only at h1 h2 h3 h4; subst h1 h2 h3 h4; exact Iff.rfl

theorem same_remSpec (cfg : Cfg) {s1 s2 : State} (h : SameSched s1 s2) (m : Nat) :
    remSpec cfg s1 m = remSpec cfg s2 m := by
  obtain ⟨h1, h2, h3, h4⟩ := h
  cases s1; cases s2; dsimp only at h1 h2 h3 h4; subst h1 h2 h3 h4; rfl

theorem same_jobSpec (cfg : Cfg) {s1 s2 : State} (h : SameSched s1 s2) (m : Nat) (t : Int) :
    jobSpec cfg s1 m t = jobSpec cfg s2 m t := by
  obtain ⟨h1, h2, h3, h4⟩ := h
  cases s1; cases s2; dsimp only at h1 h2 h3 h4; subst h1 h2 h3 h4; rfl

theorem same_legalTable (cfg : Cfg) {s1 s2 : State} (h : SameSched s1 s2) :
    legalTable cfg s1 = legalTable cfg s2 := by
  obtain ⟨h1, h2, h3, h4⟩ := h
  cases s1; cases s2; dsimp only at h1 h2 h3 h4; subst h1 h2 h3 h4; rfl

/-! ### lists -/

theorem eq_map_getD {α} (l : List α) (d : α) (n : Nat) (h : l.length = n) :
    l = (List.range n).map fun i => l.getD i d := by
  apply List.ext_getElem
  · simp [h]
  · intro i h1 h2
    simp [List.getD_eq_getElem?_getD, List.getElem?_eq_getElem h1]

/-! ### state-level facts: the derived fields of a consistent state are functions of the schedule -/

theorem mem_remTimes (cfg : Cfg) (s : State) (m : Nat) (x : Int) :
    x ∈ remTimes cfg s m ↔ ∃ j, j < cfg.J ∧ ∃ k, k < cfg.O ∧ isSched s j k ∧ s.midAt j k = (m : Int) ∧
      x = endTime s j k - s.stepCount := by
  unfold remTimes
  simp only [List.mem_flatMap, List.mem_filterMap, List.mem_range]
  constructor
  · rintro ⟨j, hj, k, hk, h⟩
    by_cases hs : isSched s j k ∧ s.midAt j k = (m : Int)
    · rw [if_pos hs] at h
      exact ⟨j, hj, k, hk, hs.1, hs.2, (Option.some.inj h).symm⟩
    · rw [if_neg hs] at h; cases h
  · rintro ⟨j, hj, k, hk, hs, hm, rfl⟩
    exact ⟨j, hj, k, hk, by rw [if_pos ⟨hs, hm⟩]⟩

/-- `machines_remaining_times[m]` of a consistent state is the time until the last op on `m` completes -/
theorem remSpec_eq (cfg : Cfg) (s : State) (hB : Bookkeeping cfg s) {m : Nat} (hm : m < cfg.M) :
    remSpec cfg s m = s.remAt m := by
  obtain ⟨h0, hU, hA⟩ := hB.2 m hm
  unfold remSpec
  apply foldl_max_eq _ _ _ h0
  · intro x hx
    obtain ⟨j, hj, k, hk, hs, hmid, rfl⟩ := (mem_remTimes cfg s m x).1 hx
    have := hU j hj k hk hs hmid
    omega
  · by_cases hp : 0 < s.remAt m
    · left
      obtain ⟨j, hj, k, hk, hs, hmid, _, he⟩ := hA hp
      exact (mem_remTimes cfg s m _).2 ⟨j, hj, k, hk, hs, hmid, by omega⟩
    · right; omega

/-- the mask of a consistent state is the legality table of the rules (as arrays) -/
theorem maskOf_eq_legalTable (cfg : Cfg) (s : State) (hI : Inv cfg s) :
    maskOf cfg s = legalTable cfg s := by
  unfold maskOf createActionMask legalTable
  simp only []
  apply List.map_congr_left; intro m hm
  have hm := List.mem_range.1 hm
  rw [List.range_succ, List.map_append]
  congr 1
  · apply List.map_congr_left; intro j hj
    have hj := List.mem_range.1 hj
    have e := createActionMask_at cfg s.mjob s.mrem s.mid s.opsMask hm (Nat.le_of_lt hj)
    rw [if_pos hj] at e
    refine e.symm.trans (Bool.eq_iff_iff.2 ?_)
    rw [decide_eq_true_iff]
    exact mask_iff_legal cfg s hI hm (Nat.le_of_lt hj)
  · simp [legal, hm]

theorem idleSpec_iff (cfg : Cfg) (s' : State) : idleSpec cfg s' ↔ allIdle cfg s' = true := by
  unfold idleSpec allIdle
  rw [List.all_eq_true]
  constructor
  · intro h m hm
    have := h m (List.mem_range.1 hm)
    simp [this.1, this.2]
  · intro h m hm
    have := h m (List.mem_range.2 hm)
    simpa using this

/-- on a consistent state `schedule_finished` says: every real op is scheduled and has completed -/
theorem completeSpec_iff (cfg : Cfg) (s' : State) (hI : Inv cfg s') :
    completeSpec cfg s' ↔ finished cfg s' = true := by
  obtain ⟨hS, hMO, hF, hMask, hB⟩ := hI
  rw [finished_iff_all cfg s' hS]
  constructor
  · intro h
    refine ⟨fun j hj k hk => ?_, fun m hm => ?_⟩
    · cases hm : s'.maskAt j k
      · rfl
      · obtain ⟨hop, hns⟩ := (hMask j hj k hk).1 hm
        exact absurd (h j hj k hk hop).1 hns
    · obtain ⟨h0, hU, hA⟩ := hB m hm
      by_cases hp : 0 < s'.remAt m
      · obtain ⟨j, hj, k, hk, hs, _, _, he⟩ := hA hp
        have := (h j hj k hk hs.1).2
        omega
      · omega
  · rintro ⟨hall, hrem⟩ j hj k hk hop
    have hs : isSched s' j k := by
      by_cases hs : isSched s' j k
      · exact hs
      · have := (hMask j hj k hk).2 ⟨hop, hs⟩
        rw [hall j hj k hk] at this; exact Bool.noConfusion this
    refine ⟨hs, ?_⟩
    obtain ⟨hm0, hm1⟩ := hMO j hj k hk hop
    have hmM : (s'.midAt j k).toNat < cfg.M := by omega
    have := (hB _ hmM).2.1 j hj k hk hs (by omega)
    rw [hrem _ hmM] at this
    omega

/-- with durations `≥ 1` an op occupies its machine during `[t, t+1)` iff `start ≤ t < end` -/
theorem occupies_iff_of_durations (cfg : Cfg) (s : State) (hD : DurationsOK cfg s) {m j k : Nat}
    (hj : j < cfg.J) (hk : k < cfg.O) (t : Int) :
    occupies s m j k t ↔
      (isSched s j k ∧ s.midAt j k = (m : Int) ∧ s.schedAt j k ≤ t ∧ t < endTime s j k) := by
  unfold occupies
  constructor
  · rintro ⟨h1, h2, h3, h4⟩
    refine ⟨h1, h2, h3, ?_⟩
    rcases h4 with h4 | h4
    · exact h4
    · have := (hD j hj k hk h1.1).1
      unfold endTime; omega
  · rintro ⟨h1, h2, h3, h4⟩
    exact ⟨h1, h2, h3, Or.inl h4⟩

/-! ### `jobSpec` -/

theorem jobSpec_none (cfg : Cfg) (s : State) (m : Nat) (t : Int)
    (h : ∀ j, j < cfg.J → ¬ ∃ k, k < cfg.O ∧ occupies s m j k t) : jobSpec cfg s m t = (cfg.J : Int) := by
  unfold jobSpec
  have : (List.range cfg.J).find? (fun j => decide (∃ k, k < cfg.O ∧ occupies s m j k t)) = none := by
    rw [List.find?_eq_none]
    intro j hj hd
    exact h j (List.mem_range.1 hj) (of_decide_eq_true hd)
  rw [this]

theorem jobSpec_some (cfg : Cfg) (s : State) (m : Nat) (t : Int) {j0 : Nat} (hj0 : j0 < cfg.J)
    (h0 : ∃ k, k < cfg.O ∧ occupies s m j0 k t)
    (huniq : ∀ j, j < cfg.J → (∃ k, k < cfg.O ∧ occupies s m j k t) → j = j0) :
    jobSpec cfg s m t = (j0 : Int) := by
  unfold jobSpec
  cases hf : (List.range cfg.J).find? (fun j => decide (∃ k, k < cfg.O ∧ occupies s m j k t)) with
  | none =>
    rw [List.find?_eq_none] at hf
    exact absurd (decide_eq_true h0) (hf j0 (List.mem_range.2 hj0))
  | some j =>
    have h1 := List.find?_some hf
    have h2 := List.mem_of_find?_eq_some hf
    have := huniq j (List.mem_range.1 h2) (of_decide_eq_true h1)
    simp [this]

/-! ### the successor, field by field -/

section spec
variable (cfg : Cfg) (s : State) (a : List Int) (hI : Inv cfg s) (hL : legalAction cfg s a)
include hI hL

theorem schedAfter_eq : schedAfter cfg s a = (next cfg s a).sched := by
  show _ = updSched cfg s a
  unfold schedAfter updSched
  apply List.map_congr_left; intro j hj
  apply List.map_congr_left; intro k hk
  have hj := List.mem_range.1 hj
  have hk := List.mem_range.1 hk
  by_cases hh : hit s a j k = true
  · have hH := (hit_iff cfg s a hI hL hj hk).1 hh
    simp [hh, hH]
  · have hH : ¬ Hit cfg s a j k := fun h => hh ((hit_iff cfg s a hI hL hj hk).2 h)
    simp [hh, hH]

theorem advance_same : SameSched (advance cfg s a) (next cfg s a) :=
  ⟨rfl, rfl, schedAfter_eq cfg s a hI hL, rfl⟩

theorem opsMask_spec :
    ((List.range cfg.J).map fun j => (List.range cfg.O).map fun k =>
      decide (isOp (advance cfg s a) j k ∧ ¬ isSched (advance cfg s a) j k)) = (next cfg s a).opsMask := by
  show _ = updMask cfg s a
  unfold updMask
  have hS := advance_same cfg s a hI hL
  apply List.map_congr_left; intro j hj
  apply List.map_congr_left; intro k hk
  have hj := List.mem_range.1 hj
  have hk := List.mem_range.1 hk
  rw [← next_maskAt cfg s a hj hk]
  apply Bool.eq_iff_iff.2
  rw [decide_eq_true_iff, mask_next cfg s a hI hL j hj k hk, same_isOp hS j k, same_isSched hS j k]

theorem mrem_spec :
    ((List.range cfg.M).map fun m => remSpec cfg (advance cfg s a) m) = (next cfg s a).mrem := by
  have hS := advance_same cfg s a hI hL
  have hI' := inv_next cfg s a hI hL
  rw [eq_map_getD (next cfg s a).mrem 0 cfg.M hI'.1.2.2.2.2.2.2]
  apply List.map_congr_left; intro m hm
  rw [same_remSpec cfg hS m]
  exact remSpec_eq cfg _ hI'.2.2.2 (List.mem_range.1 hm)

/-- which ops occupy a machine during the time unit just played, in terms of the old schedule -/
theorem occupies_next {m j k : Nat} (hj : j < cfg.J) (hk : k < cfg.O) :
    occupies (next cfg s a) m j k s.stepCount ↔
      ((Hit cfg s a j k ∧ s.midAt j k = (m : Int)) ∨
       (isSched s j k ∧ s.midAt j k = (m : Int) ∧ s.stepCount < endTime s j k)) := by
  unfold occupies
  rw [isSched_next cfg s a hI hL hj hk, endTime_next cfg s a hI hL hj hk,
    schedAt_next cfg s a hI hL hj hk, next_midAt]
  by_cases hH : Hit cfg s a j k
  · have hns := hit_not_sched cfg s a hH
    simp only [if_pos hH]
    constructor
    · rintro ⟨_, h2, _⟩; exact Or.inl ⟨hH, h2⟩
    · rintro (⟨_, h2⟩ | ⟨h1, _⟩)
      · exact ⟨Or.inl hH, h2, by omega, Or.inr trivial⟩
      · exact absurd h1 hns
  · simp only [if_neg hH]
    constructor
    · rintro ⟨h1 | h1, h2, h3, h4⟩
      · exact absurd h1 hH
      · have := hI.2.2.1.2.1 j hj k hk h1
        refine Or.inr ⟨h1, h2, ?_⟩
        rcases h4 with h4 | h4 <;> omega
    · rintro (⟨h1, _⟩ | ⟨h1, h2, h3⟩)
      · exact absurd h1 hH
      · have := hI.2.2.1.2.1 j hj k hk h1
        exact ⟨Or.inr h1, h2, by omega, Or.inl h3⟩

/-- `machines_job_ids[m]` after a legal action is the job that occupied `m` during the time unit just
played (the no-op id when `m` was unoccupied) -/
theorem jobSpec_next {m : Nat} (hm : m < cfg.M) :
    jobSpec cfg (next cfg s a) m s.stepCount = (next cfg s a).jobAt m := by
  obtain ⟨h0, hU, hA⟩ := hI.2.2.2.2 m hm
  have hP := hI.2.2.1.2.1
  have hMach := hI.2.2.1.2.2.2
  rw [next_jobAt cfg s a hm]
  rcases act_cases cfg s a hL hm with hno | ⟨j0, hj0, haj⟩
  · -- no-op on machine m
    rw [if_pos hno]
    have nohit : ∀ j, j < cfg.J → ∀ k, ¬ (Hit cfg s a j k ∧ s.midAt j k = (m : Int)) := by
      rintro j hj k ⟨hH, hmid⟩
      obtain ⟨m1, hm1, ha1, _, hmid1, _, _⟩ := hit_full cfg s a hL hj hH
      have : m1 = m := by omega
      subst this; omega
    by_cases hr : s.remAt m = 0
    · rw [if_pos hr]
      apply jobSpec_none
      rintro j hj ⟨k, hk, hocc⟩
      rcases (occupies_next cfg s a hI hL hj hk).1 hocc with h | ⟨h1, h2, h3⟩
      · exact nohit j hj k h
      · have := hU j hj k hk h1 h2; omega
    · rw [if_neg hr]
      obtain ⟨j0, hj0, k0, hk0, hs0, hmid0, hjob0, he0⟩ := hA (by omega)
      rw [hjob0]
      apply jobSpec_some cfg _ m _ hj0
        ⟨k0, hk0, (occupies_next cfg s a hI hL hj0 hk0).2 (Or.inr ⟨hs0, hmid0, by omega⟩)⟩
      rintro j hj ⟨k, hk, hocc⟩
      rcases (occupies_next cfg s a hI hL hj hk).1 hocc with h | ⟨h1, h2, h3⟩
      · exact absurd h (nohit j hj k)
      · by_cases hne : j = j0
        · exact hne
        · exfalso
          have hd := hMach j hj k hk j0 hj0 k0 hk0 h1 hs0 (by rw [h2, hmid0]) (Or.inl hne)
          have p1 := hP j hj k hk h1
          have p2 := hP j0 hj0 k0 hk0 hs0
          omega
  · -- machine m starts job j0
    have hne : actAt a m ≠ (cfg.J : Int) := by omega
    rw [if_neg hne, haj]
    obtain ⟨nb, nr, k0, hk0, hn, hmid⟩ := legal_facts cfg s a hL hm hj0 haj
    apply jobSpec_some cfg _ m _ hj0
      ⟨k0, hk0, (occupies_next cfg s a hI hL hj0 hk0).2 (Or.inl ⟨⟨m, hm, haj, hn⟩, hmid⟩)⟩
    rintro j hj ⟨k, hk, hocc⟩
    rcases (occupies_next cfg s a hI hL hj hk).1 hocc with ⟨hH, hmid1⟩ | ⟨h1, h2, h3⟩
    · obtain ⟨m1, hm1, ha1, _, hmid2, _, _⟩ := hit_full cfg s a hL hj hH
      have : m1 = m := by omega
      subst this; omega
    · exact absurd ⟨j, hj, k, hk, ⟨h1, h3⟩, h2⟩ nb

theorem mjob_spec :
    ((List.range cfg.M).map fun m => jobSpec cfg (advance cfg s a) m s.stepCount) =
      (next cfg s a).mjob := by
  have hS := advance_same cfg s a hI hL
  rw [eq_map_getD (next cfg s a).mjob 0 cfg.M (shaped_next cfg s a hI.1).2.2.2.2.2.1]
  apply List.map_congr_left; intro m hm
  rw [same_jobSpec cfg hS m]
  exact jobSpec_next cfg s a hI hL (List.mem_range.1 hm)

theorem amask_spec : legalTable cfg (advance cfg s a) = (next cfg s a).amask := by
  rw [same_legalTable cfg (advance_same cfg s a hI hL), next_amask,
    maskOf_eq_legalTable cfg _ (inv_next cfg s a hI hL)]

/-- the successor state of the rules is the successor state of the implementation -/
theorem specState_eq : specState cfg s a = next cfg s a := by
  unfold specState
  simp only []
  rw [opsMask_spec cfg s a hI hL, mjob_spec cfg s a hI hL, mrem_spec cfg s a hI hL,
    amask_spec cfg s a hI hL, schedAfter_eq cfg s a hI hL]
  rfl

end spec

/-! ### the refinement theorem -/

/-- L1 = L2: on a state of legal play (invariant, fresh cached mask) and for every legal joint action,
the transliterated `step` and the rule-level `stepSpec` return the same state and the same timestep
(all eight state fields; step type, reward, discount and the six observation fields) -/
theorem step_eq_spec (cfg : Cfg) (s : State) (a : List Int) (hI : Inv cfg s)
    (hC : s.amask = maskOf cfg s) (hL : legalAction cfg s a) : step cfg s a = stepSpec cfg s a := by
  have hI' := inv_next cfg s a hI hL
  have hv := (invalid_iff cfg s a hI hC (legalAction_inSpec cfg s a hL)).2 hL
  have h1 := idleSpec_iff cfg (next cfg s a)
  have h2 := completeSpec_iff cfg (next cfg s a) hI'
  unfold stepSpec step
  simp only []
  rw [specState_eq cfg s a hI hL, hv]
  unfold specTimeStep condLast
  by_cases hi : idleSpec cfg (next cfg s a)
  · have hi' := h1.1 hi
    simp [hi, hi']
  · have hi' : allIdle cfg (next cfg s a) = false := by
      cases h : allIdle cfg (next cfg s a)
      · rfl
      · exact absurd (h1.2 h) hi
    by_cases hc : completeSpec cfg (next cfg s a)
    · have hc' := h2.1 hc
      simp [hi, hi', hc, hc', hL]
    · have hc' : finished cfg (next cfg s a) = false := by
        cases h : finished cfg (next cfg s a)
        · rfl
        · exact absurd (h2.2 h) hc
      simp [hi, hi', hc, hc', hL]

/-- an in-spec action that is not legal: implementation and rules both end the episode (LAST) with the
penalty and discount 0.  (Nothing is claimed about the state: `step` mutates it with gather semantics
that are not rule-level.) -/
theorem step_illegal_spec (cfg : Cfg) (s : State) (a : List Int) (hI : Inv cfg s)
    (hC : s.amask = maskOf cfg s) (hA : InSpec cfg a) (h : ¬ legalAction cfg s a) :
    ((step cfg s a).2.stepType = .last ∧ (step cfg s a).2.reward = [penalty cfg] ∧
      (step cfg s a).2.discount = [0]) ∧
    ((stepSpec cfg s a).2.stepType = .last ∧ (stepSpec cfg s a).2.reward = [penalty cfg] ∧
      (stepSpec cfg s a).2.discount = [0]) := by
  refine ⟨illegal_terminates cfg s a hI hC hA h, ?_⟩
  unfold stepSpec specTimeStep termination zerosR RShape.size
  simp [h]

end JobShop
