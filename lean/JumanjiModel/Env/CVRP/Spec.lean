/-
CVRP — wave 3 (statement audit of Props/Env/CVRP.lean and the listed gaps):
* C01: the declared `observation_spec` / `action_spec` as `Sp` values (`obsSpec n`, `actionSpec n`), equal to the
  generated literals of Gen/Specs.lean, and MEMBERSHIP (structure, shapes, dtypes, bounds) of every observation `reset`
  and `step` emit, under the invariant `SpecInv c n` (established by `reset`, preserved by every in-spec step);
* C04: `step_agrees_step` — the statement about `step` itself;
* C06: `step_complete_is_solution` (a LAST step of a legal action) and `episode_complete_is_solution` (whole episodes);
* C09: `step_eq_stepL2` — the transliterated `step` equals the documented rules `stepL2` in ALL fields of the successor
  state, reward, discount, step type and observation, for legal and illegal in-range actions;
* C11: whole episodes end within `2·num_nodes` steps whatever in-spec actions are played.
-/
import JumanjiModel.Env.CVRP.Lemmas
import JumanjiModel.Env.CVRP.GenLemmas
import JumanjiModel.Env.CVRP.Bounds
import JumanjiModel.Env.RoutingSpecValid
import JumanjiModel.Env.HorizonEpisode
namespace CVRP
open Jm Sp PzS

/-! ### the declared specs (env.py `observation_spec`, `action_spec`); `n` = `num_nodes` -/

def obsSpec (n : Nat) : Sp.Nested :=
  [("coordinates", .bounded [n + 1, 2] .float32 "coordinates" [] [0] [] [1]),
   ("demands", .bounded [n + 1] .float32 "demands" [] [0] [] [1]),
   ("unvisited_nodes", .bounded [n + 1] .bool "unvisited_nodes" [] [0] [] [1]),
   ("position", .discrete (n + 1) .int32 "position"),
   ("trajectory", .bounded [2 * n] .int32 "trajectory" [] [0] [] [(((n + 1 : Nat) : Int) : Rat)]),
   ("capacity", .bounded [] .float32 "capacity" [] [0] [] [1]),
   ("action_mask", .bounded [n + 1] .bool "action_mask" [] [0] [] [1])]

/-- `DiscreteArray(num_nodes + 1)` -/
def actionSpec (n : Nat) : Leaf := .discrete (n + 1) .int32 "action"

/-- a model observation as the arrays the implementation emits; every shape is READ OFF the value -/
def toNValue (o : Obs) : NValue :=
  [("coordinates", ⟨[o.coords.length, (o.coords.headD []).length], .float32, o.coords.flatten⟩),
   ("demands", ⟨[o.demands.length], .float32, o.demands⟩),
   ("unvisited_nodes", ⟨[o.unvisited.length], .bool, ofBools o.unvisited⟩),
   ("position", ⟨[], .int32, [((o.position : Int) : Rat)]⟩),
   ("trajectory", ⟨[o.trajectory.length], .int32, ofInts (o.trajectory.map (fun (v : Nat) => (v : Int)))⟩),
   ("capacity", ⟨[], .float32, [o.capacity]⟩),
   ("action_mask", ⟨[o.mask.length], .bool, ofBools o.mask⟩)]

/-- what membership amounts to -/
def ObsOK (n : Nat) (o : Obs) : Prop :=
  o.coords.length = n + 1 ∧ (∀ p ∈ o.coords, p.length = 2 ∧ ∀ x ∈ p, 0 ≤ x ∧ x ≤ 1) ∧
  o.demands.length = n + 1 ∧ (∀ x ∈ o.demands, 0 ≤ x ∧ x ≤ 1) ∧ o.unvisited.length = n + 1 ∧
  o.position ≤ n ∧ o.trajectory.length = 2 * n ∧ (∀ v ∈ o.trajectory, v ≤ n + 1) ∧
  (0 ≤ o.capacity ∧ o.capacity ≤ 1) ∧ o.mask.length = n + 1

theorem obs_valid (n : Nat) (o : Obs) (h : ObsOK n o) : (obsSpec n).valid (toNValue o) = true := by
  obtain ⟨h1, h2, h3, h4, h5, h6, h7, h8, h9, h10⟩ := h
  have a1 := valid_unit_rows (n + 1) 2 (by omega) "coordinates" o.coords h1 h2
  have a2 := valid_unit_vec (n + 1) "demands" o.demands h3 h4
  have a3 := valid_bools (n + 1) "unvisited_nodes" o.unvisited h5
  have a4 := (valid_discrete_iff (n + 1) "position" (o.position : Int)).mpr ⟨by omega, by omega⟩
  have a5 : (Leaf.bounded [2 * n] .int32 "trajectory" [] [0] [] [(((n + 1 : Nat) : Int) : Rat)]).valid
      ⟨[o.trajectory.length], .int32, ofInts (o.trajectory.map (fun (v : Nat) => (v : Int)))⟩ = true := by
    rw [h7]
    refine valid_scalar_bounded _ _ _ _ _ _ (by simp [ofInts, prod_one, h7]) ?_
    have := ofInts_bounds (o.trajectory.map (fun (v : Nat) => (v : Int))) 0 ((n + 1 : Nat) : Int) (by
      intro v hv
      obtain ⟨w, hw, rfl⟩ := List.mem_map.mp hv
      have := h8 w hw
      omega)
    simpa using this
  have a6 : (Leaf.bounded [] .float32 "capacity" [] [0] [] [1]).valid ⟨[], .float32, [o.capacity]⟩ = true := by
    refine valid_scalar_bounded _ _ _ _ _ _ (by simp [prod]) ?_
    intro x hx
    simp only [List.mem_cons, List.not_mem_nil, or_false] at hx
    subst hx; exact h9
  have a7 := valid_bools (n + 1) "action_mask" o.mask h10
  simp only [Nested.valid, obsSpec, toNValue, List.map_cons, List.map_nil, List.zipWith_cons_cons,
    List.zipWith_nil_right, List.all_cons, List.all_nil, id, a1, a2, a3, a4, a5, a6, a7, Bool.and_true, beq_self_eq_true]

/-- … and `validate` accepts nothing else (membership is not hollow) -/
theorem obs_valid_only (n : Nat) (o : Obs) (h : (obsSpec n).valid (toNValue o) = true) :
    o.coords.length = n + 1 ∧ (∀ x ∈ o.coords.flatten, 0 ≤ x ∧ x ≤ 1) ∧
    o.demands.length = n + 1 ∧ (∀ x ∈ o.demands, 0 ≤ x ∧ x ≤ 1) ∧ o.unvisited.length = n + 1 ∧
    o.position ≤ n ∧ o.trajectory.length = 2 * n ∧ (∀ v ∈ o.trajectory, v ≤ n + 1) ∧
    (0 ≤ o.capacity ∧ o.capacity ≤ 1) ∧ o.mask.length = n + 1 := by
  simp only [Nested.valid, obsSpec, toNValue, List.map_cons, List.map_nil, List.zipWith_cons_cons,
    List.zipWith_nil_right, List.all_cons, List.all_nil, id, Bool.and_true, Bool.and_eq_true, beq_self_eq_true,
    true_and] at h
  obtain ⟨h1, h2, h3, h4, h5, h6, h7⟩ := h
  rw [valid_scalar_bounded_iff] at h1 h2 h3 h5 h6 h7
  rw [valid_discrete_iff] at h4
  refine ⟨by simpa using congrArg (fun l => l.headD 0) h1.1, h1.2.2.2, by simpa using h2.1, h2.2.2.2,
    by simpa using h3.1, by omega, by simpa using h5.1, ?_, h6.2.2.2 _ (by simp), by simpa using h7.1⟩
  intro v hv
  have := h5.2.2.2 ((v : Int) : Rat) (by
    simp only [ofInts, List.mem_map]
    exact ⟨(v : Int), ⟨v, hv, rfl⟩, rfl⟩)
  have l2 : (v : Int) ≤ ((n + 1 : Nat) : Int) := Rat.intCast_le_intCast.mp this.2
  omega

/-! ### the invariant -/

/-- value ranges (`ObsInv`, Env/CVRP/Bounds.lean) and the shapes of a `num_nodes = n` instance -/
def SpecInv (c : Cfg) (n : Nat) (s : State) : Prop :=
  ObsInv c n s ∧ s.coords.length = n + 1 ∧ (∀ p ∈ s.coords, p.length = 2) ∧ s.demands.length = n + 1 ∧
  s.visited.length = n + 1 ∧ s.trajectory.length = 2 * n

instance (c : Cfg) (n : Nat) (s : State) : Decidable (SpecInv c n s) := by unfold SpecInv; infer_instance

theorem reset_specInv (c : Cfg) (n : Nat) (maxDemand : Int) (cd : List (List Rat)) (dd : List Int)
    (hd : validDraw n maxDemand cd dd) (hm : maxDemand ≤ c.maxCap) : SpecInv c n (reset c n cd dd).1 := by
  refine ⟨reset_obsInv c n maxDemand cd dd hd hm, hd.1, fun p hp => (hd.2.2.1 p hp).1, ?_, ?_, ?_⟩
  · simp [reset, generate, Jx.setWD_length, hd.2.1]
  · simp [reset, generate, Jx.setWD_length]
  · simp [reset, generate]

theorem step_specInv (c : Cfg) (D : Dist) (n : Nat) (s : State) (a : Nat) (ha : a ≤ n) (h : SpecInv c n s) :
    SpecInv c n (step c D s a).1 := by
  obtain ⟨h1, h2, h3, h4, h5, h6⟩ := h
  obtain ⟨l1, l2, l3, l4⟩ := step_lengths c D s a
  exact ⟨step_obsInv c D n s a ha h1, by rw [l4]; exact h2, by rw [l4]; exact h3, by rw [l1]; exact h4,
    by rw [l2]; exact h5, by rw [l3]; exact h6⟩

theorem stateToObs_ok (c : Cfg) (n : Nat) (s : State) (h : SpecInv c n s) : ObsOK n (stateToObs c s) := by
  obtain ⟨⟨hco, hde, hca, hpo, htr⟩, h2, h3, h4, h5, h6⟩ := h
  refine ⟨h2, fun p hp => ⟨h3 p hp, hco p hp⟩, by simp [stateToObs, h4], ?_, by simp [stateToObs, h5], hpo, h6,
    fun v hv => by have := htr v hv; omega, ?_, by simp only [stateToObs]; rw [maskOf_length s (by omega), h5]⟩
  · intro x hx
    simp only [stateToObs] at hx
    obtain ⟨d, hd, rfl⟩ := List.mem_map.mp hx
    exact frac_in01 d c.maxCap (hde d hd).1 (hde d hd).2
  · exact frac_in01 s.capacity c.maxCap hca.1 hca.2

theorem reset_obs_valid (c : Cfg) (n : Nat) (maxDemand : Int) (cd : List (List Rat)) (dd : List Int)
    (hd : validDraw n maxDemand cd dd) (hm : maxDemand ≤ c.maxCap) :
    (obsSpec n).valid (toNValue (reset c n cd dd).2.obs) = true :=
  obs_valid n _ (stateToObs_ok c n _ (reset_specInv c n maxDemand cd dd hd hm))

theorem step_obs_valid (c : Cfg) (D : Dist) (n : Nat) (s : State) (a : Nat) (ha : a ≤ n) (h : SpecInv c n s) :
    (obsSpec n).valid (toNValue (step c D s a).2.obs) = true := by
  rw [step_obs]; exact obs_valid n _ (stateToObs_ok c n _ (step_specInv c D n s a ha h))

theorem step_mid_or_last (c : Cfg) (D : Dist) (s : State) (a : Nat) :
    (step c D s a).2.stepType = .mid ∨ (step c D s a).2.stepType = .last := by
  rw [step_type]; split <;> simp

/-- `action_spec.generate_value()` = 0 (the depot) is a member of the action spec and `step` accepts it in every state of
the invariant -/
theorem step_accepts_generate (c : Cfg) (D : Dist) (n : Nat) (s : State) (h : SpecInv c n s) :
    (actionSpec n).generate = ⟨[], .int32, [0]⟩ ∧ (actionSpec n).valid (actionSpec n).generate = true ∧
    (obsSpec n).valid (toNValue (step c D s 0).2.obs) = true ∧
    ((step c D s 0).2.stepType = .mid ∨ (step c D s 0).2.stepType = .last) :=
  ⟨(discrete_generate (n + 1) "action" (by omega)).1, (discrete_generate (n + 1) "action" (by omega)).2,
   step_obs_valid c D n s 0 (by omega) h, step_mid_or_last c D s 0⟩

theorem specInv_along (c : Cfg) (D : Dist) (n : Nat) (s : State) (as : List Nat) (hok : ∀ a ∈ as, a ≤ n)
    (h : SpecInv c n s) : SpecInv c n ((Ep.ofStep (step c D) (fun s => (s.numVisits : Int))).run s as) := by
  induction as generalizing s with
  | nil => exact h
  | cons a as ih =>
    exact ih _ (fun b hb => hok b (by simp [hb])) (step_specInv c D n s a (hok a (by simp)) h)

/-! ### C09: `step` = the documented rules -/

theorem update_eq_visitL2 (c : Cfg) (s : State) (a : Nat) (hl : s.demands.length = s.visited.length)
    (ha : a < s.visited.length) : update c s a = visitL2 c s a := by
  rw [update_eq c s a hl ha]
  unfold visitL2
  by_cases hk : s.numVisits < s.trajectory.length
  · simp [hk, DEPOT]
  · simp [hk, DEPOT, List.set_eq_of_length_le (Nat.le_of_not_lt hk)]

theorem all_of_getD (xs : List Bool) (h : ∀ i, i < xs.length → xs.getD i false = true) : xs.all id = true := by
  rw [List.all_eq_true]
  intro b hb
  obtain ⟨i, hi, rfl⟩ := List.getElem_of_mem hb
  have := h i hi
  simpa [List.getD_eq_getElem?_getD, List.getElem?_eq_getElem hi] using this

/-- in a feasible state "every customer is on the route and the vehicle is at the depot" is `visited_mask.all()` -/
theorem complete_eq_allVisited (m : Int) (s : State) (hf : Feasible m s) : complete s = allVisited s := by
  have hf' := hf
  obtain ⟨_, hL, _, _, _, _, _, _, _, _, hvis, hv0, _⟩ := hf
  rw [Bool.eq_iff_iff]
  constructor
  · intro hc
    simp only [complete, Bool.and_eq_true, decide_eq_true_eq, List.all_eq_true, List.mem_range, Bool.or_eq_true,
      beq_iff_eq] at hc
    obtain ⟨hp, hall⟩ := hc
    apply all_of_getD
    intro i hi
    by_cases h0 : i = DEPOT
    · subst h0; exact hv0.2 hp
    · rcases hall i hi with h | h
      · exact absurd h h0
      · exact (hvis i hi (by unfold DEPOT at h0; omega)).2 h
  · intro ha
    have hp := allVisited_at_depot m s hf' ha
    simp only [complete, Bool.and_eq_true, decide_eq_true_eq, List.all_eq_true, List.mem_range, Bool.or_eq_true,
      beq_iff_eq]
    refine ⟨hp, fun i hi => ?_⟩
    by_cases h0 : i = DEPOT
    · exact Or.inl h0
    · exact Or.inr ((hvis i hi (by unfold DEPOT at h0; omega)).1 (all_getD _ _ ha hi))

/-- C09: on every feasible state and every in-range action (legal or not) the transliterated `step` returns exactly what
the documented rules `stepL2` prescribe: successor state (all fields), reward, step type, discount, observation -/
theorem step_eq_stepL2 (c : Cfg) (D : Dist) (s : State) (a : Nat) (hm : 0 ≤ c.maxCap)
    (hD : dist D DEPOT DEPOT = 0) (hf : Feasible c.maxCap s) (ha : a < s.visited.length) :
    step c D s a = stepL2 c D s a := by
  by_cases hl : legal s a
  · have hu := update_eq_visitL2 c s a hf.1 ha
    have hs := step_legal c D s a hf hl
    have hv := (isValid_iff_legal c.maxCap s a hf ha).2 hl
    have hf' : Feasible c.maxCap (visitL2 c s a) := by rw [← hu, ← hs]; exact step_feasible c D s a hm hf hl
    have hcomp := complete_eq_allVisited c.maxCap _ hf'
    have hobs : stateToObs c (visitL2 c s a) = observe c (visitL2 c s a) := stateToObs_eq_observe c _ hf'.1
    have hpos : (visitL2 c s a).position = a := rfl
    unfold stepL2
    rw [if_pos hl]
    unfold step
    simp only [hv, ↓reduceIte, hu, Bool.not_true, Bool.or_false, hobs, hcomp]
    cases hall : allVisited (visitL2 c s a)
    · -- the episode goes on
      simp only [condLast, Bool.false_eq_true, ↓reduceIte, reward, denseReward, sparseReward, hall, hpos]
      cases c.dense <;> simp
    · -- completion: the vehicle is at the depot, the closing leg of the dense reward is 0
      have hdep : a = DEPOT := by
        have := allVisited_at_depot c.maxCap _ hf' hall
        rw [hpos] at this; exact this
      have htl := computeTourLength_eq c.maxCap D _ hD hf'
      simp only [condLast, ↓reduceIte, reward, denseReward, sparseReward, hall, hpos, htl]
      cases c.dense
      · simp
      · simp only [↓reduceIte]
        rw [hdep, hD, Rat.sub_eq_add_neg, Rat.neg_zero, Rat.add_zero]
  · obtain ⟨h1, h2, h3, h4⟩ := illegal_step c D s a hf hD ha hl
    have hobs : (step c D s a).2.obs = observe c s := by
      have := obs_faithful c D s a hf.1
      rw [h1] at this; exact this
    unfold stepL2
    rw [if_neg hl, ← penalty_eq c s hf]
    refine Prod.ext h1 ?_
    cases hts : (step c D s a).2 with
    | mk st r d o =>
      rw [hts] at h2 h3 h4 hobs
      simp only at h2 h3 h4 hobs
      subst h2; subst h3; subst h4; subst hobs
      rfl

/-! ### C04 -/

/-- on a feasible state and an in-range node: a legal action is carried out (successor = `visitL2 c s a`), an illegal
one changes nothing and ends the episode; so the visit is counted iff the action was legal -/
theorem step_agrees_step (c : Cfg) (D : Dist) (s : State) (a : Nat) (hf : Feasible c.maxCap s)
    (ha : a < s.visited.length) :
    (legal s a → (step c D s a).1 = visitL2 c s a) ∧
    (¬ legal s a → (step c D s a).1 = s ∧ (step c D s a).2.stepType = .last) ∧
    (legal s a ↔ (step c D s a).1.numVisits = s.numVisits + 1) := by
  have h1 : legal s a → (step c D s a).1 = visitL2 c s a := fun hl => by
    rw [step_legal c D s a hf hl, update_eq_visitL2 c s a hf.1 ha]
  have h2 : ¬ legal s a → (step c D s a).1 = s ∧ (step c D s a).2.stepType = .last := fun hl => by
    have hv : isValid s a = false := by
      cases hh : isValid s a
      · rfl
      · exact absurd ((isValid_iff_legal c.maxCap s a hf ha).1 hh) hl
    refine ⟨by unfold step; simp [hv], ?_⟩
    rw [step_type, hv]; simp
  refine ⟨h1, h2, ?_⟩
  constructor
  · intro hl; rw [h1 hl]; rfl
  · intro he
    by_cases hl : legal s a
    · exact hl
    · rw [(h2 hl).1] at he; omega

/-! ### C06: completion -/

/-- a legal action whose step is LAST produced a complete solution -/
theorem step_complete_is_solution (c : Cfg) (D : Dist) (s : State) (a : Nat) (hm : 0 ≤ c.maxCap)
    (hf : Feasible c.maxCap s) (hl : legal s a) (hlast : (step c D s a).2.stepType = .last) :
    IsSolution c.maxCap (step c D s a).1 :=
  complete_is_solution c.maxCap _ (step_feasible c D s a hm hf hl)
    ((step_legal_spec c D s a hf hl).2.2.2.2.2.2.1.mp hlast)

/-- whole episodes: a complete episode of legal actions from a feasible state ends in a complete solution -/
theorem episode_complete_is_solution (c : Cfg) (D : Dist) (hm : 0 ≤ c.maxCap) (s : State) (as : List Nat)
    (hf : Feasible c.maxCap s) (hep : LegalEpisode c D s as) : IsSolution c.maxCap (endState c D s as) := by
  induction as generalizing s with
  | nil => exact absurd hep (by simp [LegalEpisode])
  | cons a as ih =>
    obtain ⟨hl, hrest⟩ := hep
    unfold endState
    by_cases hlast : (step c D s a).2.stepType = .last
    · rw [if_pos hlast]; exact step_complete_is_solution c D s a hm hf hl hlast
    · rw [if_neg hlast]
      rw [if_neg hlast] at hrest
      exact ih _ (step_feasible c D s a hm hf hl) hrest

/-! ### C11: an episode lasts at most `2·num_nodes` steps -/

def HInv (c : Cfg) (n : Nat) (s : State) : Prop := Feasible c.maxCap s ∧ s.visited.length = n + 1

def pot (n : Nat) (s : State) : Nat := 2 * n - s.numVisits

theorem bounded (c : Cfg) (D : Dist) (hm : 0 ≤ c.maxCap) (n : Nat) :
    Ep.Bounded (Ep.ofStep (step c D) (fun s => (s.numVisits : Int))) (HInv c n) (fun a => a ≤ n) (pot n) :=
  Ep.Bounded.of_step
    (fun s a hi ha => ⟨step_feasible_any c D s a hm hi.1 (by rw [hi.2]; omega),
      by rw [(step_lengths c D s a).2.1]; exact hi.2⟩)
    (fun s a hi ha hnl => by
      have hp := progress c D s a hm hi.1 (by rw [hi.2]; omega) hnl
      have hn : numNodes s = n := by unfold numNodes; rw [hi.2]; omega
      rw [hn] at hp
      unfold pot
      omega)

theorem ends_within_horizon (c : Cfg) (D : Dist) (hm : 0 ≤ c.maxCap) (n : Nat) (hn : 0 < n) (cd : List (List Rat))
    (dd : List Int) (hd : dd.length = n + 1) (as : List Nat) (hok : ∀ a ∈ as, a ≤ n) (hlen : 2 * n ≤ as.length) :
    ∃ k, Ep.firstLastTS ((Ep.rollout (step c D) (reset c n cd dd).1 as).map (·.2)) = some k ∧ 0 < k ∧ k ≤ 2 * n := by
  have hi : HInv c n (reset c n cd dd).1 :=
    ⟨generate_feasible n c.maxCap cd dd hm hd, by simp [reset, generate, Jx.setWD_length]⟩
  have hp : pot n (reset c n cd dd).1 + 1 = 2 * n := by simp only [pot, reset, generate]; omega
  obtain ⟨k, hk, h1, h2⟩ := (bounded c D hm n).rollout_ends _ hi as hok (by omega)
  exact ⟨k, hk, h1, by omega⟩

end CVRP
