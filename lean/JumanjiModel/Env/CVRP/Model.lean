/-
CVRP (jumanji/environments/routing/cvrp/{env,reward,generator,types,constants}.py).  Import-free.

L1 = transliteration of `step`, `_update_state`, `_state_to_observation`, `DenseReward`,
`SparseReward`, `compute_tour_length`, and of the shape of `UniformGenerator.__call__` (the random
coordinates and demands are draw parameters).
Euclidean distances are NOT computed here: every function that needs a distance takes the matrix
`D` (`D[i][j]` = distance between node `i` and node `j`, supplied by the adapter, checked against
the coordinates by `distMatches`).  `coordinates[i]` with a traced index is a gather, hence
`dist D i j` clamps both indices exactly as the two gathers of the implementation do.
`sqrt2` is the symbol √2 of the invalid-action penalty `-len(trajectory) * sqrt(2)`.

L2 = `legal`, `visits`, `Feasible`, `IsSolution`, `tourLength`, `observe`: the rules as documented
(docs/environments/cvrp.md and the class docstring), stated without looking at the mask code.
-/
import JumanjiModel.Prim.Idx
import JumanjiModel.Core.TimeStep
namespace CVRP
open Jm

/-- `DEPOT_IDX` (constants.py) -/
def DEPOT : Nat := 0

structure State where
  coords : List (List Rat)     -- (num_nodes + 1, 2)
  demands : List Int           -- (num_nodes + 1,)
  position : Nat
  capacity : Int
  visited : List Bool          -- (num_nodes + 1,)
  trajectory : List Nat        -- (2 * num_nodes,)
  numVisits : Nat              -- num_total_visits
  deriving Repr, DecidableEq

structure Obs where
  coords : List (List Rat)
  demands : List Rat
  unvisited : List Bool
  position : Nat
  trajectory : List Nat
  capacity : Rat
  mask : List Bool
  deriving Repr, DecidableEq

/-- constructor parameters: `generator.max_capacity`, which reward function, and the symbol √2 -/
structure Cfg where
  maxCap : Int
  dense : Bool
  sqrt2 : Rat
  deriving Repr

abbrev Dist := List (List Rat)

/-- distance between `coordinates[i]` and `coordinates[j]` (both gathers clamp) -/
def dist (D : Dist) (i j : Nat) : Rat := Jx.getWC (Jx.getWC D [] (i : Int)) 0 (j : Int)

/-! ### L1 -/

/-- `_state_to_observation`: `~visited_mask & (capacity >= demands)`, then
`.at[DEPOT_IDX].set(position != DEPOT_IDX)` -/
def maskOf (s : State) : List Bool :=
  Jx.setWD (List.zipWith (fun v d => !v && decide (s.capacity ≥ d)) s.visited s.demands)
    (DEPOT : Int) (s.position != DEPOT)

/-- `_state_to_observation` -/
def stateToObs (c : Cfg) (s : State) : Obs :=
  { coords := s.coords
    demands := s.demands.map (fun (d : Int) => (d : Rat) / (c.maxCap : Rat))
    unvisited := s.visited.map (fun v => !v)
    position := s.position
    trajectory := s.trajectory
    capacity := (s.capacity : Rat) / (c.maxCap : Rat)
    mask := maskOf s }

/-- the validity test of `step`: `~visited_mask[action] & (capacity >= demands[action])` -/
def isValid (s : State) (a : Nat) : Bool :=
  !(Jx.getWC s.visited false (a : Int)) && decide (s.capacity ≥ Jx.getWC s.demands 0 (a : Int))

/-- `_update_state` -/
def update (c : Cfg) (s : State) (a : Nat) : State :=
  let capacity := if a == DEPOT then c.maxCap else s.capacity - Jx.getWC s.demands 0 (a : Int)
  let visitedMask := Jx.setWD s.visited (DEPOT : Int) false
  { s with position := a
           capacity := capacity
           visited := Jx.setWD visitedMask (a : Int) true
           trajectory := Jx.setWD s.trajectory (s.numVisits : Int) a
           numVisits := s.numVisits + 1 }

/-- `visited_mask.all()` -/
def allVisited (s : State) : Bool := s.visited.all id

/-- the invalid-action reward `-len(state.trajectory) * sqrt(2)` -/
def penalty (c : Cfg) (s : State) : Rat := -((s.trajectory.length : Nat) : Rat) * c.sqrt2

/-- `compute_tour_length`: `coordinates[trajectory]`, rolled by −1, summed norms of differences -/
def computeTourLength (D : Dist) (traj : List Nat) : Rat :=
  (List.zipWith (dist D) traj (traj.drop 1 ++ traj.take 1)).sum

/-- `DenseReward.__call__` -/
def denseReward (c : Cfg) (D : Dist) (s : State) (s' : State) (valid : Bool) : Rat :=
  let r := if valid then -(dist D s.position s'.position) else penalty c s
  if allVisited s' then r - dist D s'.position DEPOT else r

/-- `SparseReward.__call__` -/
def sparseReward (c : Cfg) (D : Dist) (s : State) (s' : State) (valid : Bool) : Rat :=
  let isDone := allVisited s' || !valid
  if isDone then (if valid then -(computeTourLength D s'.trajectory) else penalty c s) else 0

def reward (c : Cfg) (D : Dist) (s : State) (s' : State) (valid : Bool) : Rat :=
  if c.dense then denseReward c D s s' valid else sparseReward c D s s' valid

/-- `CVRP.step` -/
def step (c : Cfg) (D : Dist) (s : State) (a : Nat) : State × TimeStep Obs :=
  let valid := isValid s a
  let s' := if valid then update c s a else s
  let r := reward c D s s' valid
  let o := stateToObs c s'
  let isDone := allVisited s' || !valid
  (s', condLast isDone [r] o)

/-- `UniformGenerator.__call__` with the random coordinates and the random demand vector
(`randint(minval=1, maxval=max_demand)`, length `num_nodes + 1`, before the depot overwrite) as
draw parameters -/
def generate (numNodes : Nat) (maxCap : Int) (coordDraw : List (List Rat)) (demandDraw : List Int) :
    State :=
  { coords := coordDraw
    demands := Jx.setWD demandDraw (DEPOT : Int) 0
    position := DEPOT
    capacity := maxCap
    visited := Jx.setWD (List.replicate (numNodes + 1) false) (DEPOT : Int) true
    trajectory := List.replicate (2 * numNodes) DEPOT
    numVisits := 1 }

/-- the draws `UniformGenerator` can produce: `num_nodes + 1` points of the unit square and
`num_nodes + 1` integers of the documented range `[1, max_demand]` -/
def validDraw (numNodes : Nat) (maxDemand : Int) (coordDraw : List (List Rat)) (demandDraw : List Int) :
    Prop :=
  coordDraw.length = numNodes + 1 ∧ demandDraw.length = numNodes + 1 ∧
  (∀ p ∈ coordDraw, p.length = 2 ∧ ∀ x ∈ p, 0 ≤ x ∧ x ≤ 1) ∧
  (∀ d ∈ demandDraw, 1 ≤ d ∧ d ≤ maxDemand)

instance (n : Nat) (m : Int) (cd : List (List Rat)) (dd : List Int) : Decidable (validDraw n m cd dd) := by
  unfold validDraw; infer_instance

/-- `CVRP.reset` -/
def reset (c : Cfg) (numNodes : Nat) (coordDraw : List (List Rat)) (demandDraw : List Int) :
    State × TimeStep Obs :=
  let s := generate numNodes c.maxCap coordDraw demandDraw
  (s, restart (stateToObs c s))

/-! ### L2: the rules -/

/-- number of customers -/
def numNodes (s : State) : Nat := s.visited.length - 1

/-- "An action is the index of the next node to visit, 0 is the depot."  A customer may be visited
iff it has not been visited yet and its demand fits the remaining capacity of the vehicle; the depot
may be visited (to refill) at any time, except when the vehicle is standing on it. -/
def legal (s : State) (a : Nat) : Prop :=
  a < s.visited.length ∧
  (if a = DEPOT then s.position ≠ DEPOT
   else s.visited.getD a true = false ∧ s.demands.getD a 0 ≤ s.capacity)

instance (s : State) (a : Nat) : Decidable (legal s a) := by unfold legal; infer_instance

/-- the visits made so far, in order (the first is the start at the depot).  A visit whose slot
lies beyond the end of the trajectory array reads as the depot. -/
def visits (s : State) : List Nat := (List.range s.numVisits).map (fun i => s.trajectory.getD i DEPOT)

/-- driving along a list of visits with `load` on board: at the depot the vehicle is emptied,
at a customer its demand is loaded.  The load after the last visit. -/
def finalLoad (dem : List Int) : Int → List Nat → Int
  | load, [] => load
  | load, v :: vs => finalLoad dem (if v = DEPOT then 0 else load + dem.getD v 0) vs

/-- … and was the load within the capacity after every single visit (hence on every route)? -/
def loadsOK (dem : List Int) (cap : Int) : Int → List Nat → Bool
  | _, [] => true
  | load, v :: vs =>
    let load' := if v = DEPOT then 0 else load + dem.getD v 0
    decide (load' ≤ cap) && loadsOK dem cap load' vs

/-- The hard constraints of the problem and the bookkeeping of the state, recomputed from the raw
arrays:
* shapes; the depot has no demand;
* the trajectory starts at the depot, holds node indices, is `DEPOT` where not filled yet, and
  the vehicle stands at the last visit;
* no customer is visited twice, and `visited` is exactly the set of customers on the trajectory
  (its depot bit says whether the vehicle is at the depot);
* the load never exceeds the capacity on any route, and `capacity` is what is left on the current one;
* the depot is never visited twice in a row — in counting form: visits ≤ 2·(visited bits) − [at depot]. -/
def Feasible (maxCap : Int) (s : State) : Prop :=
  s.demands.length = s.visited.length ∧ 1 ≤ s.visited.length ∧
  s.trajectory.length = 2 * numNodes s ∧
  s.demands.getD DEPOT 0 = 0 ∧
  1 ≤ s.numVisits ∧
  s.trajectory.getD 0 DEPOT = DEPOT ∧
  (∀ v ∈ visits s, v < s.visited.length) ∧
  (∀ i, i < s.trajectory.length → s.numVisits ≤ i → s.trajectory.getD i DEPOT = DEPOT) ∧
  s.position = s.trajectory.getD (s.numVisits - 1) DEPOT ∧
  ((visits s).filter (· ≠ DEPOT)).Nodup ∧
  (∀ c, c < s.visited.length → 0 < c → (s.visited.getD c false = true ↔ c ∈ visits s)) ∧
  (s.visited.getD DEPOT false = true ↔ s.position = DEPOT) ∧
  loadsOK s.demands maxCap 0 (visits s) = true ∧
  s.capacity = maxCap - finalLoad s.demands 0 (visits s) ∧
  0 ≤ s.capacity ∧
  s.numVisits + (if s.position = DEPOT then 1 else 0) ≤ 2 * Jx.countTrue s.visited

instance (m : Int) (s : State) : Decidable (Feasible m s) := by unfold Feasible; infer_instance

/-- a complete solution: feasible, every customer served, vehicle back at the depot -/
def IsSolution (maxCap : Int) (s : State) : Prop :=
  Feasible maxCap s ∧ (∀ c, c < s.visited.length → 0 < c → c ∈ visits s) ∧ s.position = DEPOT

instance (m : Int) (s : State) : Decidable (IsSolution m s) := by unfold IsSolution; infer_instance

/-- length of the open path through a list of nodes -/
def pathLen (D : Dist) : List Nat → Rat
  | [] => 0
  | [_] => 0
  | u :: v :: vs => dist D u v + pathLen D (v :: vs)

/-- the documented objective: length of the tour through all visits made so far (depot returns
included) and back to the depot -/
def tourLength (D : Dist) (s : State) : Rat := pathLen D (visits s ++ [DEPOT])

/-- the documented observation: problem data and route so far copied; demands and capacity as
fractions of the vehicle's maximum capacity; `unvisited_nodes` the complement of the visited mask;
`action_mask` the legal actions. -/
def observe (c : Cfg) (s : State) : Obs :=
  { coords := s.coords
    demands := s.demands.map (fun (d : Int) => (d : Rat) / (c.maxCap : Rat))
    unvisited := s.visited.map (fun v => !v)
    position := s.position
    trajectory := s.trajectory
    capacity := (s.capacity : Rat) / (c.maxCap : Rat)
    mask := (List.range s.visited.length).map (fun a => decide (legal s a)) }

/-! ### L2: one step of the game as the documentation states it (C09)

docs/environments/cvrp.md and the class docstring: an action is the index of the next node to visit, 0 is the depot; the
vehicle moves there, the node is appended to the route; a customer is marked visited and its demand is taken from the
capacity, the depot refills the vehicle (and can be visited again later).  "Episode termination: if no action can be
performed, i.e. all nodes have been visited; if an invalid action is taken."  Reward: dense = "the negative distance
between the current node and the chosen next node"; sparse = "the negative tour length at the end of the episode"; "a large
negative penalty of −2·num_nodes·√2 if the action is invalid". -/

/-- the vehicle drives to node `a` -/
def visitL2 (c : Cfg) (s : State) (a : Nat) : State :=
  { s with position := a
           capacity := if a = DEPOT then c.maxCap else s.capacity - s.demands.getD a 0
           visited := List.set (List.set s.visited DEPOT false) a true
           trajectory := List.set s.trajectory s.numVisits a
           numVisits := s.numVisits + 1 }

/-- nothing is left to do: every customer is on the route and the vehicle is back at the depot (recomputed from the
route, not from the visited mask) -/
def complete (s : State) : Bool :=
  decide (s.position = DEPOT) && (List.range s.visited.length).all (fun x => x == DEPOT || decide (x ∈ visits s))

def stepL2 (c : Cfg) (D : Dist) (s : State) (a : Nat) : State × TimeStep Obs :=
  if legal s a then
    let s' := visitL2 c s a
    let r : Rat := if c.dense then -(dist D s.position a) else if complete s' then -(tourLength D s') else 0
    (s', if complete s' then termination [r] (observe c s') else transition [r] (observe c s'))
  else (s, termination [-((2 * numNodes s : Nat) : Rat) * c.sqrt2] (observe c s))

/-! ### instance certificates (C10) -/

/-- what the generator advertises about a fresh instance -/
def demandsOK (maxCap maxDemand : Int) (s : State) : Prop :=
  s.demands.getD DEPOT 1 = 0 ∧ (∀ d ∈ s.demands.drop 1, 1 ≤ d ∧ d ≤ maxDemand) ∧
  (∀ d ∈ s.demands, d ≤ maxCap)

instance (a b : Int) (s : State) : Decidable (demandsOK a b s) := by unfold demandsOK; infer_instance

def coordsInBox (s : State) : Prop := ∀ p ∈ s.coords, p.length = 2 ∧ ∀ x ∈ p, 0 ≤ x ∧ x ≤ 1

instance (s : State) : Decidable (coordsInBox s) := by unfold coordsInBox; infer_instance

/-- the state `reset` must return for `num_nodes = n` -/
def IsInitial (n : Nat) (maxCap : Int) (s : State) : Prop :=
  s.coords.length = n + 1 ∧ s.demands.length = n + 1 ∧ s.position = DEPOT ∧ s.capacity = maxCap ∧
  s.visited = true :: List.replicate n false ∧ s.trajectory = List.replicate (2 * n) DEPOT ∧
  s.numVisits = 1

instance (n : Nat) (m : Int) (s : State) : Decidable (IsInitial n m s) := by unfold IsInitial; infer_instance

/-- does the matrix `D` agree with the coordinates: `|D[i][j]² − ‖pᵢ − pⱼ‖²| ≤ tol`, `D ≥ 0`,
zero diagonal -/
def distMatches (tol : Rat) (coords : List (List Rat)) (D : Dist) : Bool :=
  decide (D.length = coords.length) &&
  (List.zipWith (fun (p : List Rat) (row : List Rat) =>
      decide (row.length = coords.length) &&
      (List.zipWith (fun (q : List Rat) (d : Rat) =>
          let dx := p.getD 0 0 - q.getD 0 0
          let dy := p.getD 1 0 - q.getD 1 0
          let e := d * d - (dx * dx + dy * dy)
          decide (0 ≤ d) && decide (e ≤ tol) && decide (-tol ≤ e)) coords row).all id) coords D).all id &&
  ((List.range D.length).all (fun i => dist D i i == 0))

/-! ### the generator certificate for the transliterated generator (C10) -/

/-- the support of the draws of `UniformGenerator`: `num_nodes + 1` points with both coordinates in the half-open
interval `[0, 1)` (`jax.random.uniform`), `num_nodes + 1` integers in the documented range `[1, max_demand]`
(`jax.random.randint(minval=1, maxval=max_demand)` draws from `[1, max_demand)`, a subset) -/
def validUniform (numNodes : Nat) (maxDemand : Int) (coordDraw : List (List Rat)) (demandDraw : List Int) :
    Prop :=
  coordDraw.length = numNodes + 1 ∧ demandDraw.length = numNodes + 1 ∧
  (∀ p ∈ coordDraw, p.length = 2 ∧ ∀ x ∈ p, 0 ≤ x ∧ x < 1) ∧
  (∀ d ∈ demandDraw, 1 ≤ d ∧ d ≤ maxDemand)

instance (n : Nat) (m : Int) (cd : List (List Rat)) (dd : List Int) : Decidable (validUniform n m cd dd) := by
  unfold validUniform; infer_instance

/-- the support the CODE draws from (audit r4 #1): `jax.random.randint(key, (n + 1,), minval=1, maxval=max_demand)` — the
upper bound is EXCLUSIVE, and when `max_demand ≤ 1` the empty range is widened to a span of 1 and `minval = 1` is returned.  So
every demand draw `d` satisfies `1 ≤ d ≤ max 1 (max_demand − 1)`: a subset of the documented range `[1, max_demand]`
(`validUniform`) when `max_demand ≥ 1`, and OUTSIDE it when `max_demand ≤ 0` (which `CVRP.__init__` accepts).  The same
support is derived from the source by the draw-range translator: `Props.C10.cvrp_demand_draw_tied`. -/
def validUniformCode (numNodes : Nat) (maxDemand : Int) (coordDraw : List (List Rat)) (demandDraw : List Int) :
    Prop :=
  coordDraw.length = numNodes + 1 ∧ demandDraw.length = numNodes + 1 ∧
  (∀ p ∈ coordDraw, p.length = 2 ∧ ∀ x ∈ p, 0 ≤ x ∧ x < 1) ∧
  (∀ d ∈ demandDraw, 1 ≤ d ∧ d ≤ max 1 (maxDemand - 1))

instance (n : Nat) (m : Int) (cd : List (List Rat)) (dd : List Int) : Decidable (validUniformCode n m cd dd) := by
  unfold validUniformCode; infer_instance

/-- generator certificate, evaluated on the implementation's reset states: shapes; coordinates in `[0, 1)`;
depot demand 0; every customer demand an integer of `[1, max_demand]` and at most the vehicle's capacity;
capacity = `max_capacity`; vehicle at the depot; only the depot visited; trajectory all depot; one visit counted -/
def GenCert (n : Nat) (maxCap maxDemand : Int) (s : State) : Prop :=
  s.coords.length = n + 1 ∧ s.demands.length = n + 1 ∧
  (∀ p ∈ s.coords, p.length = 2 ∧ ∀ x ∈ p, 0 ≤ x ∧ x < 1) ∧
  s.demands.getD DEPOT 1 = 0 ∧
  (∀ d ∈ s.demands.drop 1, 1 ≤ d ∧ d ≤ maxDemand ∧ d ≤ maxCap) ∧
  s.capacity = maxCap ∧ s.position = DEPOT ∧
  s.visited = true :: List.replicate n false ∧ s.trajectory = List.replicate (2 * n) DEPOT ∧
  s.numVisits = 1

instance (n : Nat) (a b : Int) (s : State) : Decidable (GenCert n a b s) := by unfold GenCert; infer_instance

end CVRP
