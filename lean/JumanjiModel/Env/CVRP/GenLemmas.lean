/-
CVRP: the generator certificate for all valid draws (C10) and whole-episode feasibility (C06).
-/
import JumanjiModel.Env.CVRP.Lemmas
namespace CVRP
open Jm

/-- every valid draw gives a state satisfying the certificate (given the constructor's check
`max_demand ≤ max_capacity`) -/
theorem generate_cert (n : Nat) (maxCap maxDemand : Int) (cd : List (List Rat)) (dd : List Int)
    (hcon : maxDemand ≤ maxCap) (hd : validUniform n maxDemand cd dd) :
    GenCert n maxCap maxDemand (generate n maxCap cd dd) := by
  obtain ⟨h1, h2, h3, h4⟩ := hd
  rw [generate_eq]
  refine ⟨h1, by simp [h2], h3, ?_, ?_, rfl, rfl, rfl, rfl, rfl⟩
  · simp only [DEPOT]; rw [getD_set_eq _ _ _ _ (by omega)]
  · intro d hdm
    simp only [List.drop_set] at hdm
    simp at hdm
    have := h4 d (List.mem_of_mem_tail hdm)
    omega

/-- a state satisfying the certificate IS the generator's output for the draws read off it -/
theorem cert_eq_generate (n : Nat) (maxCap maxDemand : Int) (s : State) (h : GenCert n maxCap maxDemand s) :
    s = generate n maxCap s.coords s.demands := by
  obtain ⟨_, hl, _, h0, _, hc, hp, hv, ht, hn⟩ := h
  rw [generate_eq]
  have hd : s.demands.set 0 0 = s.demands := by
    cases hdm : s.demands with
    | nil => simp
    | cons x xs => simp [hdm, DEPOT] at h0; simp [h0]
  cases s; simp_all [DEPOT]

/-- certificate ⇒ advertised invariants -/
theorem cert_sound (n : Nat) (maxCap maxDemand : Int) (s : State) (hm : 0 ≤ maxCap)
    (h : GenCert n maxCap maxDemand s) :
    demandsOK maxCap maxDemand s ∧ coordsInBox s ∧ IsInitial n maxCap s ∧ Feasible maxCap s := by
  have heq := cert_eq_generate n maxCap maxDemand s h
  obtain ⟨hcl, hl, hbox, h0, hdem, hc, hp, hv, ht, hn⟩ := h
  refine ⟨⟨h0, fun d hd => ⟨(hdem d hd).1, (hdem d hd).2.1⟩, ?_⟩, ?_, ⟨hcl, hl, hp, hc, hv, ht, hn⟩, ?_⟩
  · intro d hd
    cases hdm : s.demands with
    | nil => simp [hdm] at hd
    | cons x xs =>
      rw [hdm] at hd h0 hdem
      simp [DEPOT] at h0
      cases List.mem_cons.1 hd with
      | inl h => omega
      | inr h => exact (hdem d (by simpa using h)).2.2
  · intro p hp'
    exact ⟨(hbox p hp').1, fun x hx => ⟨((hbox p hp').2 x hx).1, Rat.le_of_lt ((hbox p hp').2 x hx).2⟩⟩
  · rw [heq]; exact generate_feasible n maxCap _ _ hm hl

/-! ### whole episodes -/

/-- the state after playing the nodes `as` one after the other -/
def playS (c : Cfg) (D : Dist) : State → List Nat → State
  | s, [] => s
  | s, a :: as => playS c D (step c D s a).1 as

/-- every node of the list is legal (L2) when its turn comes -/
def AllLegal (c : Cfg) (D : Dist) : State → List Nat → Prop
  | _, [] => True
  | s, a :: as => legal s a ∧ AllLegal c D (step c D s a).1 as

/-- mask-respecting: every node has its bit set in the action mask of the observation current at its turn -/
def AllMasked (c : Cfg) (D : Dist) : State → List Nat → Prop
  | _, [] => True
  | s, a :: as => (stateToObs c s).mask.getD a false = true ∧ AllMasked c D (step c D s a).1 as

theorem allLegal_take (c : Cfg) (D : Dist) (as : List Nat) :
    ∀ s k, AllLegal c D s as → AllLegal c D s (as.take k) := by
  induction as with
  | nil => intro s k h; simpa using h
  | cons a as ih =>
    intro s k h
    cases k with
    | zero => simp [AllLegal]
    | succ k => simp only [List.take_succ_cons, AllLegal] at h ⊢; exact ⟨h.1, ih _ k h.2⟩

theorem feasible_play (c : Cfg) (D : Dist) (hm : 0 ≤ c.maxCap) (as : List Nat) :
    ∀ s, Feasible c.maxCap s → AllLegal c D s as → Feasible c.maxCap (playS c D s as) := by
  induction as with
  | nil => intro s hf _; simpa [playS] using hf
  | cons a as ih =>
    intro s hf hal
    simp only [AllLegal] at hal
    simp only [playS]
    exact ih _ (step_feasible c D s a hm hf hal.1) hal.2

theorem allMasked_allLegal (c : Cfg) (D : Dist) (hm : 0 ≤ c.maxCap) (as : List Nat) :
    ∀ s, Feasible c.maxCap s → AllMasked c D s as → AllLegal c D s as := by
  induction as with
  | nil => intro s _ _; simp [AllLegal]
  | cons a as ih =>
    intro s hf h
    simp only [AllMasked] at h
    have hl : legal s a := (mask_iff_legal s a hf.1).1 h.1
    exact ⟨hl, ih _ (step_feasible c D s a hm hf hl) h.2⟩

/-- feasibility after every prefix of a legal sequence -/
theorem feasible_along (c : Cfg) (D : Dist) (hm : 0 ≤ c.maxCap) (s : State) (as : List Nat)
    (hf : Feasible c.maxCap s) (hal : AllLegal c D s as) (k : Nat) :
    Feasible c.maxCap (playS c D s (as.take k)) :=
  feasible_play c D hm _ s hf (allLegal_take c D as s k hal)

/-! ### audit r4 #1: the support the code draws from -/

/-- for `max_demand ≥ 1` what the code draws lies in the documented range -/
theorem validUniformCode_sub (n : Nat) (m : Int) (cd : List (List Rat)) (dd : List Int) (h1 : 1 ≤ m)
    (h : validUniformCode n m cd dd) : validUniform n m cd dd := by
  obtain ⟨a, b, c, d⟩ := h
  exact ⟨a, b, c, fun x hx => ⟨(d x hx).1, by have := (d x hx).2; omega⟩⟩

/-- the documented support is EMPTY for `max_demand ≤ 0`: every theorem assuming `validUniform` / `validDraw` silently
assumes `1 ≤ max_demand` -/
theorem validUniform_pos (n : Nat) (m : Int) (cd : List (List Rat)) (dd : List Int) (h : validUniform n m cd dd) :
    1 ≤ m := by
  obtain ⟨_, h2, _, h4⟩ := h
  cases dd with
  | nil => simp at h2
  | cons d ds => have := h4 d (by simp); omega

theorem validDraw_pos (n : Nat) (m : Int) (cd : List (List Rat)) (dd : List Int) (h : validDraw n m cd dd) :
    1 ≤ m := by
  obtain ⟨_, h2, _, h4⟩ := h
  cases dd with
  | nil => simp at h2
  | cons d ds => have := h4 d (by simp); omega

/-- … while the support of the code is never empty -/
theorem validUniformCode_inhabited (n : Nat) (m : Int) :
    validUniformCode n m (List.replicate (n + 1) [0, 0]) (List.replicate (n + 1) 1) := by
  refine ⟨by simp, by simp, ?_, ?_⟩
  · intro p hp
    rw [List.eq_of_mem_replicate hp]
    exact ⟨rfl, by intro x hx; simp at hx; subst hx; decide⟩
  · intro d hd
    rw [List.eq_of_mem_replicate hd]
    omega

theorem generate_cert_code (n : Nat) (maxCap maxDemand : Int) (cd : List (List Rat)) (dd : List Int)
    (h1 : 1 ≤ maxDemand) (hcon : maxDemand ≤ maxCap) (hd : validUniformCode n maxDemand cd dd) :
    GenCert n maxCap maxDemand (generate n maxCap cd dd) ∧
    (∀ d ∈ (generate n maxCap cd dd).demands.drop 1, d ≤ max 1 (maxDemand - 1)) := by
  refine ⟨generate_cert n maxCap maxDemand cd dd hcon (validUniformCode_sub n maxDemand cd dd h1 hd), ?_⟩
  intro d hdm
  have hmem : d ∈ dd := by
    have : (generate n maxCap cd dd).demands.drop 1 = dd.drop 1 := by
      simp [generate]
      cases dd with
      | nil => simp [Jx.setWD, Jx.wrapIdx]
      | cons x xs =>
        have hx : (0 : Nat) < (x :: xs).length := by simp
        have := Jx.setWD_nat (x :: xs) (0 : Int) hx
        simp [DEPOT] at this ⊢
        rw [this]; rfl
    rw [this] at hdm
    exact List.mem_of_mem_drop hdm
  exact (hd.2.2.2 d hmem).2

end CVRP
