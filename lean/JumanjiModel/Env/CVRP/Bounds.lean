/-
CVRP: proved value bounds of the observation (property C01).

`obsBounds n` (`n` = num_nodes; keys = leaf paths of `CVRP.observation_spec`) = the interval in which
every leaf of the model's observation provably stays.  All seven leaves are covered; `trajectory` is
proved tighter ([0, n]) than declared ([0, n+1]).
`ObsInv c n` — coordinates in the unit square, every demand in [0, max_capacity], the capacity in
[0, max_capacity], position and trajectory entries ≤ n — is the invariant: established by `reset`
for every draw of the generator when `max_demand ≤ max_capacity` (the constructor's check), preserved
by every `step` with an action of the action spec (`a ≤ n`), valid or not.
-/
import JumanjiModel.Env.CVRP.Model
import JumanjiModel.Core.ObsBoundsCO
namespace CVRP
open Jm Jm.OB

def obsBounds (n : Nat) : Table :=
  [("coordinates", some 0, some 1), ("demands", some 0, some 1), ("unvisited_nodes", some 0, some 1),
   ("position", some ((0 : Int) : Rat), some (((n : Nat) : Int) : Rat)),
   ("trajectory", some ((0 : Int) : Rat), some (((n : Nat) : Int) : Rat)),
   ("capacity", some 0, some 1), ("action_mask", some 0, some 1)]

def obsLeaves (o : Obs) : Leaves :=
  [("coordinates", o.coords.flatten), ("demands", o.demands), ("unvisited_nodes", o.unvisited.map b2r),
   ("position", [(((o.position : Nat) : Int) : Rat)]),
   ("trajectory", o.trajectory.map (fun (v : Nat) => (((v : Nat) : Int) : Rat))),
   ("capacity", [o.capacity]), ("action_mask", o.mask.map b2r)]

def ObsInv (c : Cfg) (n : Nat) (s : State) : Prop :=
  (∀ p ∈ s.coords, ∀ x ∈ p, 0 ≤ x ∧ x ≤ 1) ∧ (∀ d ∈ s.demands, 0 ≤ d ∧ d ≤ c.maxCap) ∧
  (0 ≤ s.capacity ∧ s.capacity ≤ c.maxCap) ∧ s.position ≤ n ∧ (∀ v ∈ s.trajectory, v ≤ n)

instance (c : Cfg) (n : Nat) (s : State) : Decidable (ObsInv c n s) := by unfold ObsInv; infer_instance

theorem frac_in01 (d m : Int) (h0 : 0 ≤ d) (h1 : d ≤ m) : inIv (some 0) (some 1) ((d : Rat) / (m : Rat)) := by
  rw [Rat.div_def]
  by_cases hm : m = 0
  · subst hm
    have : d = 0 := by omega
    subst this
    simp [inIv]; decide
  · have hmpos : (0 : Rat) < (m : Rat) := Rat.intCast_pos.mpr (by omega)
    have hinv : (0 : Rat) ≤ (m : Rat)⁻¹ := Rat.le_of_lt (Rat.inv_pos.mpr hmpos)
    have hd : (0 : Rat) ≤ (d : Rat) := Rat.intCast_nonneg.mpr h0
    have hdm : (d : Rat) ≤ (m : Rat) := Rat.intCast_le_intCast.mpr h1
    refine ⟨Rat.mul_nonneg hd hinv, ?_⟩
    have := Rat.mul_le_mul_of_nonneg_right hdm hinv
    rwa [Rat.mul_inv_cancel _ (Rat.ne_of_gt hmpos)] at this

theorem nat_iv {v n : Nat} (h : v ≤ n) :
    inIv (some ((0 : Int) : Rat)) (some (((n : Nat) : Int) : Rat)) (((v : Nat) : Int) : Rat) :=
  ⟨Rat.intCast_le_intCast.mpr (by omega), Rat.intCast_le_intCast.mpr (by omega)⟩

theorem stateToObs_in_bounds (c : Cfg) (n : Nat) (s : State) (h : ObsInv c n s) :
    InBounds (obsBounds n) (obsLeaves (stateToObs c s)) := by
  obtain ⟨hco, hde, hca, hpo, htr⟩ := h
  refine inBounds_cons _ _ _ _ _ _ rfl ?_ <| inBounds_cons _ _ _ _ _ _ rfl ?_ <|
    inBounds_cons _ _ _ _ _ _ rfl (bools_in01 _) <| inBounds_cons _ _ _ _ _ _ rfl ?_ <|
    inBounds_cons _ _ _ _ _ _ rfl ?_ <| inBounds_cons _ _ _ _ _ _ rfl ?_ <|
    inBounds_cons _ _ _ _ _ _ rfl (bools_in01 _) <| inBounds_nil _
  · exact flat_in _ _ _ (fun p hp x hx => hco p hp x hx)
  · intro v hv
    simp only [stateToObs] at hv
    rcases List.mem_map.mp hv with ⟨d, hd, rfl⟩
    exact frac_in01 d c.maxCap (hde d hd).1 (hde d hd).2
  · intro v hv
    rcases List.mem_singleton.mp hv with rfl
    exact nat_iv hpo
  · intro v hv
    rcases List.mem_map.mp hv with ⟨t, ht, rfl⟩
    exact nat_iv (htr t ht)
  · intro v hv
    rcases List.mem_singleton.mp hv with rfl
    exact frac_in01 s.capacity c.maxCap hca.1 hca.2

theorem reset_obsInv (c : Cfg) (n : Nat) (maxDemand : Int) (cd : List (List Rat)) (dd : List Int)
    (hd : validDraw n maxDemand cd dd) (hm : maxDemand ≤ c.maxCap) : ObsInv c n (reset c n cd dd).1 := by
  obtain ⟨hcl, hdl, hcb, hdr⟩ := hd
  have hcap : 0 ≤ c.maxCap := by
    cases dd with
    | nil => simp at hdl
    | cons d ds => have := hdr d (by simp); omega
  refine ⟨fun p hp => (hcb p hp).2, ?_, ?_, ?_, ?_⟩
  · intro d hdm
    simp only [reset, generate] at hdm
    rcases mem_setWD hdm with hdm | rfl
    · have := hdr d hdm; omega
    · omega
  · simp only [reset, generate]; omega
  · simp [reset, generate, DEPOT]
  · intro v hv
    simp only [reset, generate] at hv
    have := List.eq_of_mem_replicate hv
    simp [this, DEPOT]

theorem step_obsInv (c : Cfg) (D : Dist) (n : Nat) (s : State) (a : Nat) (ha : a ≤ n)
    (h : ObsInv c n s) : ObsInv c n (step c D s a).1 := by
  obtain ⟨hco, hde, hca, hpo, htr⟩ := h
  simp only [step]
  split
  · rename_i hv
    have hdem : 0 ≤ Jx.getWC s.demands 0 (a : Int) ∧ Jx.getWC s.demands 0 (a : Int) ≤ c.maxCap := by
      rcases getWC_mem_or s.demands 0 (a : Int) with hm | hm
      · exact hde _ hm
      · rw [hm]; omega
    have hge : s.capacity ≥ Jx.getWC s.demands 0 (a : Int) := by
      simp only [isValid, Bool.and_eq_true, decide_eq_true_eq] at hv
      exact hv.2
    refine ⟨hco, hde, ?_, ha, ?_⟩
    · simp only [update]
      split <;> omega
    · intro v hvm
      simp only [update] at hvm
      rcases mem_setWD hvm with hvm | rfl
      · exact htr v hvm
      · exact ha
  · exact ⟨hco, hde, hca, hpo, htr⟩

theorem step_obs (c : Cfg) (D : Dist) (s : State) (a : Nat) :
    (step c D s a).2.obs = stateToObs c (step c D s a).1 := by
  simp only [step]; exact condLast_obs _ _ _

theorem reset_obs_in_bounds (c : Cfg) (n : Nat) (maxDemand : Int) (cd : List (List Rat)) (dd : List Int)
    (hd : validDraw n maxDemand cd dd) (hm : maxDemand ≤ c.maxCap) :
    InBounds (obsBounds n) (obsLeaves (reset c n cd dd).2.obs) :=
  stateToObs_in_bounds c n _ (reset_obsInv c n maxDemand cd dd hd hm)

theorem step_obs_in_bounds (c : Cfg) (D : Dist) (n : Nat) (s : State) (a : Nat) (ha : a ≤ n)
    (h : ObsInv c n s) : InBounds (obsBounds n) (obsLeaves (step c D s a).2.obs) := by
  rw [step_obs]; exact stateToObs_in_bounds c n _ (step_obsInv c D n s a ha h)

end CVRP
