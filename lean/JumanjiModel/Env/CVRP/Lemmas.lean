import JumanjiModel.Env.CVRP.Model
import JumanjiModel.Prim.Lemmas
namespace CVRP
open Jm

/-! ### C04: mask = legal, `step`'s own test = legal -/

theorem setWD_zero {α} (xs : List α) (v : α) : Jx.setWD xs ((DEPOT : Nat) : Int) v = xs.set 0 v := by
  cases xs with
  | nil => simp [Jx.setWD, Jx.wrapIdx, DEPOT]
  | cons x xs => exact Jx.setWD_nat (x :: xs) v (a := 0) (by simp)

theorem maskOf_length (s : State) (hl : s.demands.length = s.visited.length) :
    (maskOf s).length = s.visited.length := by
  unfold maskOf; rw [Jx.setWD_length]; simp [hl]

theorem maskOf_getD (s : State) (a : Nat) (hl : s.demands.length = s.visited.length)
    (ha : a < s.visited.length) :
    (maskOf s).getD a false =
      if a = DEPOT then (s.position != DEPOT)
      else (!(s.visited.getD a true) && decide (s.demands.getD a 0 ≤ s.capacity)) := by
  have hd : a < s.demands.length := by omega
  unfold maskOf
  rw [setWD_zero]
  by_cases h0 : a = 0
  · subst h0
    have hm : 0 < min s.visited.length s.demands.length := by omega
    simp [DEPOT, List.getD_eq_getElem?_getD, List.getElem?_set, hm]
  · have h0' : ¬ (0 = a) := fun h => h0 h.symm
    simp [DEPOT, h0, h0', List.getD_eq_getElem?_getD, List.getElem?_set, List.getElem?_zipWith,
      List.getElem?_eq_getElem ha, List.getElem?_eq_getElem hd]

theorem mask_iff_legal (s : State) (a : Nat) (hl : s.demands.length = s.visited.length) :
    (maskOf s).getD a false = true ↔ legal s a := by
  by_cases ha : a < s.visited.length
  · rw [maskOf_getD s a hl ha]
    unfold legal
    by_cases h0 : a = DEPOT
    · subst h0
      simp [ha]
    · simp [h0, ha]
  · have : (maskOf s).length ≤ a := by rw [maskOf_length s hl]; omega
    unfold legal
    simp [List.getD_eq_getElem?_getD, List.getElem?_eq_none this, ha]

theorem getD_default {α} (xs : List α) (a : Nat) (d d' : α) (ha : a < xs.length) :
    xs.getD a d = xs.getD a d' := by
  simp [List.getD_eq_getElem?_getD, List.getElem?_eq_getElem ha]

theorem isValid_eq (s : State) (a : Nat) (hl : s.demands.length = s.visited.length)
    (ha : a < s.visited.length) :
    isValid s a = (!(s.visited.getD a false) && decide (s.demands.getD a 0 ≤ s.capacity)) := by
  have hd : a < s.demands.length := by omega
  unfold isValid
  rw [Jx.getWC_nat _ _ ha, Jx.getWC_nat _ _ hd]

theorem isValid_iff_legal (m : Int) (s : State) (a : Nat) (hf : Feasible m s)
    (ha : a < s.visited.length) : isValid s a = true ↔ legal s a := by
  obtain ⟨hl, _, _, hd0, _, _, _, _, _, _, _, hv0, _, _, hc, _⟩ := hf
  rw [isValid_eq s a hl ha]
  unfold legal
  by_cases h0 : a = DEPOT
  · subst h0
    simp only [ha, true_and, if_true, hd0]
    have : decide ((0 : Int) ≤ s.capacity) = true := by simpa using hc
    rw [this, Bool.and_true]
    cases hv : s.visited.getD DEPOT false
    · rw [hv] at hv0; simp at hv0 ⊢; exact hv0
    · rw [hv] at hv0; simp at hv0 ⊢; exact hv0
  · simp only [ha, true_and, h0, if_false]
    rw [getD_default s.visited a true false ha]
    simp

/-! ### C05 -/

theorem all_getD (xs : List Bool) (a : Nat) (h : xs.all id = true) (ha : a < xs.length) :
    xs.getD a false = true := by
  simp [List.getD_eq_getElem?_getD, List.getElem?_eq_getElem ha]
  have := (List.all_eq_true.1 h) _ (List.getElem_mem ha)
  simpa using this

theorem allVisited_at_depot (m : Int) (s : State) (hf : Feasible m s) (h : allVisited s = true) :
    s.position = DEPOT := by
  obtain ⟨_, h1, _, _, _, _, _, _, _, _, _, hv0, _⟩ := hf
  exact hv0.1 (all_getD _ _ h (by unfold DEPOT; omega))

theorem illegal_step (c : Cfg) (D : Dist) (s : State) (a : Nat) (hf : Feasible c.maxCap s)
    (hD : dist D DEPOT DEPOT = 0) (ha : a < s.visited.length) (h : ¬ legal s a) :
    (step c D s a).1 = s ∧ (step c D s a).2.stepType = .last ∧
    (step c D s a).2.reward = [penalty c s] ∧ (step c D s a).2.discount = [0] := by
  have hv : isValid s a = false := by
    cases hh : isValid s a
    · rfl
    · exact absurd ((isValid_iff_legal c.maxCap s a hf ha).1 hh) h
  unfold step
  simp only [hv, Bool.false_eq_true, if_false, Bool.not_false, Bool.or_true]
  unfold condLast termination reward denseReward sparseReward
  simp only [if_true, Bool.false_eq_true, if_false, Bool.not_false, Bool.or_true]
  refine ⟨trivial, trivial, ?_, rfl⟩
  congr 1
  cases hd : c.dense
  · simp
  · simp only [if_true]
    by_cases hav : allVisited s = true
    · rw [if_pos hav, allVisited_at_depot c.maxCap s hf hav, hD, Rat.sub_eq_add_neg, Rat.neg_zero,
        Rat.add_zero]
    · rw [if_neg hav]

theorem penalty_eq (c : Cfg) (s : State) (hf : Feasible c.maxCap s) :
    penalty c s = -((2 * numNodes s : Nat) : Rat) * c.sqrt2 := by
  obtain ⟨_, _, ht, _⟩ := hf
  unfold penalty; rw [ht]

/-! ### C12 -/

theorem maskOf_eq (s : State) (hl : s.demands.length = s.visited.length) :
    maskOf s = (List.range s.visited.length).map (fun a => decide (legal s a)) := by
  apply List.ext_getElem
  · simp [maskOf_length s hl]
  · intro i h1 h2
    have hi : i < s.visited.length := by simpa [maskOf_length s hl] using h1
    have h := mask_iff_legal s i hl
    rw [List.getD_eq_getElem?_getD, List.getElem?_eq_getElem h1, Option.getD_some] at h
    simp only [List.getElem_map, List.getElem_range]
    rw [Bool.eq_iff_iff, h]; simp

theorem stateToObs_eq_observe (c : Cfg) (s : State) (hl : s.demands.length = s.visited.length) :
    stateToObs c s = observe c s := by
  unfold stateToObs observe
  rw [maskOf_eq s hl]

theorem update_lengths (c : Cfg) (s : State) (a : Nat) :
    (update c s a).demands = s.demands ∧ (update c s a).visited.length = s.visited.length ∧
    (update c s a).trajectory.length = s.trajectory.length ∧ (update c s a).coords = s.coords := by
  unfold update; simp [Jx.setWD_length]

theorem step_lengths (c : Cfg) (D : Dist) (s : State) (a : Nat) :
    (step c D s a).1.demands = s.demands ∧ (step c D s a).1.visited.length = s.visited.length ∧
    (step c D s a).1.trajectory.length = s.trajectory.length ∧ (step c D s a).1.coords = s.coords := by
  unfold step
  simp only []
  split
  · exact update_lengths c s a
  · exact ⟨rfl, rfl, rfl, rfl⟩

theorem step_obs (c : Cfg) (D : Dist) (s : State) (a : Nat) :
    (step c D s a).2.obs = stateToObs c (step c D s a).1 := by
  unfold step condLast termination transition
  simp only []
  split <;> split <;> rfl

theorem obs_faithful (c : Cfg) (D : Dist) (s : State) (a : Nat)
    (hl : s.demands.length = s.visited.length) :
    (step c D s a).2.obs = observe c (step c D s a).1 := by
  rw [step_obs]
  apply stateToObs_eq_observe
  obtain ⟨h1, h2, _, _⟩ := step_lengths c D s a
  rw [h1, h2, hl]

theorem reset_obs_faithful (c : Cfg) (n : Nat) (cd : List (List Rat)) (dd : List Int)
    (hd : dd.length = n + 1) :
    (reset c n cd dd).2.obs = observe c (reset c n cd dd).1 ∧
    (reset c n cd dd).2.stepType = .first := by
  unfold reset restart
  refine ⟨?_, rfl⟩
  apply stateToObs_eq_observe
  unfold generate
  simp [Jx.setWD_length, hd]

/-! ### C06: the invariant -/

theorem setWD_ge {α} (xs : List α) (v : α) {k : Nat} (h : xs.length ≤ k) :
    Jx.setWD xs (k : Int) v = xs := by
  unfold Jx.setWD Jx.wrapIdx; simp only []
  have h1 : ¬ ((k : Int) < 0) := by omega
  simp only [h1, if_false]
  have h2 : ((k : Int) ≥ (xs.length : Int)) := by omega
  simp [h2]

theorem countTrue_cons (b : Bool) (xs : List Bool) :
    Jx.countTrue (b :: xs) = (if b then 1 else 0) + Jx.countTrue xs := by
  unfold Jx.countTrue; cases b <;> simp [List.filter_cons] <;> omega

theorem countTrue_le (xs : List Bool) : Jx.countTrue xs ≤ xs.length := by
  unfold Jx.countTrue; exact List.length_filter_le _ _

/-- overwriting one entry changes the count by the difference of the two bits -/
theorem countTrue_set (xs : List Bool) (i : Nat) (b : Bool) (hi : i < xs.length) :
    Jx.countTrue (xs.set i b) + (if xs.getD i false then 1 else 0) =
      Jx.countTrue xs + (if b then 1 else 0) := by
  induction xs generalizing i with
  | nil => simp at hi
  | cons x xs ih =>
    cases i with
    | zero => simp [countTrue_cons, List.getD_eq_getElem?_getD]; omega
    | succ i =>
      simp at hi
      have := ih i hi
      simp [countTrue_cons, List.getD_eq_getElem?_getD] at this ⊢
      omega

theorem countTrue_lt_of_false (xs : List Bool) (i : Nat) (hi : i < xs.length)
    (h : xs.getD i true = false) : Jx.countTrue xs + 1 ≤ xs.length := by
  have h1 := countTrue_set xs i true hi
  have h2 := countTrue_le (xs.set i true)
  rw [getD_default xs i false true hi, h] at h1
  simp at h1 h2
  omega

theorem finalLoad_append (dem : List Int) (load : Int) (vs : List Nat) (a : Nat) :
    finalLoad dem load (vs ++ [a]) =
      (if a = DEPOT then 0 else finalLoad dem load vs + dem.getD a 0) := by
  induction vs generalizing load with
  | nil => simp [finalLoad]
  | cons v vs ih => simp [finalLoad, ih]

theorem loadsOK_append (dem : List Int) (cap load : Int) (vs : List Nat) (a : Nat) :
    loadsOK dem cap load (vs ++ [a]) =
      (loadsOK dem cap load vs && decide (finalLoad dem load (vs ++ [a]) ≤ cap)) := by
  induction vs generalizing load with
  | nil => simp [loadsOK, finalLoad]
  | cons v vs ih => simp [loadsOK, finalLoad, ih, Bool.and_assoc]

/-- `_update_state` on an in-range action, without the JAX index corner cases -/
theorem update_eq (c : Cfg) (s : State) (a : Nat) (hl : s.demands.length = s.visited.length)
    (ha : a < s.visited.length) :
    update c s a =
      { s with position := a
               capacity := if a = DEPOT then c.maxCap else s.capacity - s.demands.getD a 0
               visited := (s.visited.set 0 false).set a true
               trajectory := if s.numVisits < s.trajectory.length then s.trajectory.set s.numVisits a
                             else s.trajectory
               numVisits := s.numVisits + 1 } := by
  have hd : a < s.demands.length := by omega
  unfold update
  simp only []
  rw [setWD_zero, Jx.getWC_nat _ _ hd, Jx.setWD_nat _ _ (by simpa using ha)]
  by_cases hk : s.numVisits < s.trajectory.length
  · rw [Jx.setWD_nat _ _ hk]; simp [hk]
  · rw [setWD_ge _ _ (by omega)]; simp [hk]

/-- the visits after a step are the visits before it plus the new node, provided the trajectory
write lands inside the array or writes the value an unfilled slot reads as anyway -/
theorem visits_update (s : State) (a : Nat) (traj' : List Nat)
    (ht : traj' = if s.numVisits < s.trajectory.length then s.trajectory.set s.numVisits a
                  else s.trajectory)
    (hk : s.numVisits < s.trajectory.length ∨ a = DEPOT) :
    (List.range (s.numVisits + 1)).map (fun i => traj'.getD i DEPOT) = visits s ++ [a] := by
  unfold visits
  rw [List.range_succ, List.map_append]
  congr 1
  · apply List.map_congr_left
    intro i hi
    have hi' : i < s.numVisits := by simpa using hi
    subst ht
    split
    · have hne : ¬ (s.numVisits = i) := by omega
      simp [List.getD_eq_getElem?_getD, List.getElem?_set, hne]
    · rfl
  · subst ht
    split
    · rename_i h; simp [List.getD_eq_getElem?_getD, List.getElem?_set, h]
    · rename_i h
      have ha : a = DEPOT := by cases hk with
        | inl h' => exact absurd h' h
        | inr h' => exact h'
      simp [List.getD_eq_getElem?_getD, List.getElem?_eq_none (Nat.le_of_not_lt h), ha]

theorem getD_set_ne {α} (xs : List α) (i j : Nat) (v d : α) (h : i ≠ j) :
    (xs.set i v).getD j d = xs.getD j d := by
  simp [List.getD_eq_getElem?_getD, List.getElem?_set, h]

theorem getD_set_eq {α} (xs : List α) (i : Nat) (v d : α) (h : i < xs.length) :
    (xs.set i v).getD i d = v := by
  simp [List.getD_eq_getElem?_getD, List.getElem?_set, h]

theorem update_count (c : Cfg) (s : State) (a : Nat)
    (hf : Feasible c.maxCap s) (hleg : legal s a) :
    (s.numVisits < s.trajectory.length ∨ a = 0) ∧
      s.numVisits + 1 + (if a = 0 then 1 else 0) ≤
        2 * Jx.countTrue ((s.visited.set 0 false).set a true) := by
  obtain ⟨hl, hL, hT, hd0, hk1, ht0, hvr, hslots, hpos, hnd, hvis, hv0, hok, hcap, hc0, hcnt⟩ := hf
  obtain ⟨ha, hrule⟩ := hleg
  have hu := update_eq c s a hl ha
  have pV : (update c s a).visited = (s.visited.set 0 false).set a true := by rw [hu]
  have pT : (update c s a).trajectory =
      if s.numVisits < s.trajectory.length then s.trajectory.set s.numVisits a else s.trajectory := by
    rw [hu]
  have pN : (update c s a).numVisits = s.numVisits + 1 := by rw [hu]
  have pP : (update c s a).position = a := by rw [hu]
  have pC : (update c s a).capacity =
      if a = DEPOT then c.maxCap else s.capacity - s.demands.getD a 0 := by rw [hu]
  have pD : (update c s a).demands = s.demands := by rw [hu]
  have e1 := countTrue_set s.visited 0 false (by omega)
  have e2 := countTrue_set (s.visited.set 0 false) a true (by simpa using ha)
  have hb := countTrue_le ((s.visited.set 0 false).set a true)
  simp only [List.length_set] at hb
  unfold numNodes at hT
  simp only [DEPOT] at *
  by_cases h0 : a = 0
  · subst h0
    simp only [if_true] at hrule
    have hvf : s.visited.getD 0 false = false := by
      cases h : s.visited.getD 0 false
      · rfl
      · exact absurd (hv0.1 h) hrule
    rw [hvf] at e1
    rw [getD_set_eq _ _ _ _ (by omega)] at e2
    simp [hrule] at e1 e2 hcnt ⊢
    omega
  · simp only [h0, if_false] at hrule
    have hva : (s.visited.set 0 false).getD a false = false := by
      rw [getD_set_ne _ _ _ _ _ (fun h => h0 h.symm), getD_default _ _ false true ha]; exact hrule.1
    rw [hva] at e2
    have hz : ((s.visited.set 0 false).set a true).getD 0 true = false := by
      rw [getD_set_ne _ _ _ _ _ h0, getD_set_eq _ _ _ _ (by omega)]
    have hlt := countTrue_lt_of_false _ 0 (by simp; omega) hz
    simp only [List.length_set] at hlt
    by_cases hp : s.position = 0
    · have hvt : s.visited.getD 0 false = true := hv0.2 hp
      rw [hvt] at e1
      simp [hp, h0] at e1 e2 hcnt ⊢
      omega
    · have hvf : s.visited.getD 0 false = false := by
        cases h : s.visited.getD 0 false
        · rfl
        · exact absurd (hv0.1 h) hp
      rw [hvf] at e1
      simp [hp, h0] at e1 e2 hcnt ⊢
      omega

theorem update_feasible (c : Cfg) (s : State) (a : Nat) (hm : 0 ≤ c.maxCap)
    (hf : Feasible c.maxCap s) (hleg : legal s a) : Feasible c.maxCap (update c s a) := by
  obtain ⟨hl, hL, hT, hd0, hk1, ht0, hvr, hslots, hpos, hnd, hvis, hv0, hok, hcap, hc0, hcnt⟩ := hf
  obtain ⟨ha, hrule⟩ := hleg
  have hu := update_eq c s a hl ha
  have pV : (update c s a).visited = (s.visited.set 0 false).set a true := by rw [hu]
  have pT : (update c s a).trajectory =
      if s.numVisits < s.trajectory.length then s.trajectory.set s.numVisits a else s.trajectory := by
    rw [hu]
  have pN : (update c s a).numVisits = s.numVisits + 1 := by rw [hu]
  have pP : (update c s a).position = a := by rw [hu]
  have pC : (update c s a).capacity =
      if a = DEPOT then c.maxCap else s.capacity - s.demands.getD a 0 := by rw [hu]
  have pD : (update c s a).demands = s.demands := by rw [hu]
  have e1 := countTrue_set s.visited 0 false (by omega)
  have e2 := countTrue_set (s.visited.set 0 false) a true (by simpa using ha)
  have hb := countTrue_le ((s.visited.set 0 false).set a true)
  simp only [List.length_set] at hb
  unfold numNodes at hT
  simp only [DEPOT] at *
  have hcount := update_count c s a ⟨hl, hL, by unfold numNodes; exact hT, hd0, hk1, ht0, hvr, hslots, hpos, hnd, hvis, hv0, hok, hcap, hc0, hcnt⟩ ⟨ha, hrule⟩
  obtain ⟨hrange, hcnt'⟩ := hcount
  have pVis : visits (update c s a) = visits s ++ [a] := by
    unfold visits; rw [pT, pN]
    exact visits_update s a _ rfl (by simpa [DEPOT] using hrange)
  -- the new node is a customer that is not on the trajectory yet
  have hnew : a ≠ 0 → a ∉ visits s := by
    intro h0 hmem
    simp only [h0, if_false] at hrule
    have := (hvis a ha (by omega)).2 hmem
    rw [getD_default _ _ false true ha, hrule.1] at this
    exact absurd this (by decide)
  unfold Feasible numNodes
  rw [pV, pT, pN, pP, pC, pD, pVis]
  simp only [DEPOT]
  refine ⟨by simp [hl], by simp; omega, ?_, hd0, by omega, ?_, ?_, ?_, ?_, ?_, ?_, ?_, ?_, ?_, ?_, hcnt'⟩
  · split <;> simp [hT]
  · split
    · rw [getD_set_ne _ _ _ _ _ (by omega)]; exact ht0
    · exact ht0
  · intro v hv
    simp only [List.mem_append, List.mem_singleton, List.length_set] at hv ⊢
    cases hv with
    | inl h => exact hvr v h
    | inr h => rw [h]; exact ha
  · intro i hi hki
    split at hi
    · rw [if_pos (by assumption), getD_set_ne _ _ _ _ _ (by omega)]
      exact hslots i (by simpa using hi) (by omega)
    · rw [if_neg (by assumption)]
      exact hslots i hi (by omega)
  · simp only [Nat.add_sub_cancel]
    split
    · rw [getD_set_eq _ _ _ _ (by assumption)]
    · rename_i h
      have h0 : a = 0 := by
        cases hrange with
        | inl h' => exact absurd h' h
        | inr h' => exact h'
      simp [List.getD_eq_getElem?_getD, List.getElem?_eq_none (Nat.le_of_not_lt h), h0]
  · rw [List.filter_append]
    by_cases h0 : a = 0
    · simpa [h0] using hnd
    · have hn := hnew h0
      simp [h0, List.nodup_append, hnd]
      intro x hx _ hxa
      exact hn (hxa ▸ hx)
  · intro c1 hc1 hpos1
    simp only [List.length_set] at hc1
    simp only [List.mem_append, List.mem_singleton]
    by_cases hca : c1 = a
    · subst hca
      rw [getD_set_eq _ _ _ _ (by simpa using hc1)]
      simp
    · rw [getD_set_ne _ _ _ _ _ (fun h => hca h.symm), getD_set_ne _ _ _ _ _ (by omega)]
      have := hvis c1 hc1 hpos1
      simp only [hca, or_false]; exact this
  · by_cases h0 : a = 0
    · subst h0
      rw [getD_set_eq _ _ _ _ (by simp; omega)]; simp
    · rw [getD_set_ne _ _ _ _ _ h0, getD_set_eq _ _ _ _ (by omega)]
      simp [h0]
  · rw [loadsOK_append, hok, finalLoad_append]
    simp only [DEPOT, Bool.true_and]
    by_cases h0 : a = 0
    · simp only [h0, if_true]; simpa using hm
    · simp only [h0, if_false] at hrule ⊢
      have := hrule.2
      simp only [decide_eq_true_eq]
      omega
  · rw [finalLoad_append]
    simp only [DEPOT]
    by_cases h0 : a = 0
    · simp only [h0, if_true]; omega
    · simp only [h0, if_false]; omega
  · by_cases h0 : a = 0
    · simp only [h0, if_true]; exact hm
    · simp only [h0, if_false] at hrule ⊢
      omega

theorem step_legal (c : Cfg) (D : Dist) (s : State) (a : Nat) (hf : Feasible c.maxCap s)
    (hleg : legal s a) : (step c D s a).1 = update c s a := by
  have hv := (isValid_iff_legal c.maxCap s a hf hleg.1).2 hleg
  unfold step; simp [hv]

theorem step_feasible (c : Cfg) (D : Dist) (s : State) (a : Nat) (hm : 0 ≤ c.maxCap)
    (hf : Feasible c.maxCap s) (hleg : legal s a) : Feasible c.maxCap (step c D s a).1 := by
  rw [step_legal c D s a hf hleg]; exact update_feasible c s a hm hf hleg

/-- whatever the action, the successor of a feasible state is feasible (an illegal action leaves
the state untouched) -/
theorem step_feasible_any (c : Cfg) (D : Dist) (s : State) (a : Nat) (hm : 0 ≤ c.maxCap)
    (hf : Feasible c.maxCap s) (ha : a < s.visited.length) : Feasible c.maxCap (step c D s a).1 := by
  by_cases hleg : legal s a
  · exact step_feasible c D s a hm hf hleg
  · have hv : isValid s a = false := by
      cases hh : isValid s a
      · rfl
      · exact absurd ((isValid_iff_legal c.maxCap s a hf ha).1 hh) hleg
    have : (step c D s a).1 = s := by unfold step; simp [hv]
    rw [this]; exact hf

theorem countTrue_replicate_false (n : Nat) : Jx.countTrue (List.replicate n false) = 0 := by
  induction n with
  | zero => rfl
  | succ n ih => rw [List.replicate_succ, countTrue_cons, ih]; rfl

theorem generate_eq (n : Nat) (maxCap : Int) (cd : List (List Rat)) (dd : List Int) :
    generate n maxCap cd dd =
      { coords := cd, demands := dd.set 0 0, position := 0, capacity := maxCap,
        visited := true :: List.replicate n false, trajectory := List.replicate (2 * n) 0,
        numVisits := 1 : State } := by
  unfold generate
  rw [setWD_zero, setWD_zero]
  simp [DEPOT, List.replicate_succ]

theorem generate_feasible (n : Nat) (maxCap : Int) (cd : List (List Rat)) (dd : List Int)
    (hm : 0 ≤ maxCap) (hd : dd.length = n + 1) : Feasible maxCap (generate n maxCap cd dd) := by
  have hvs : visits (generate n maxCap cd dd) = [0] := by
    rw [generate_eq]
    unfold visits
    cases n <;> simp [DEPOT, List.range_succ]
  unfold Feasible numNodes
  rw [hvs, generate_eq]
  simp only [DEPOT]
  refine ⟨by simp [hd], by simp, by simp, ?_, by simp, ?_, by simp, ?_, ?_, by simp, ?_, ?_, ?_, ?_, hm, ?_⟩
  · rw [getD_set_eq _ _ _ _ (by omega)]
  · cases n <;> simp
  · intro i hi _
    simp at hi
    simp [List.getD_eq_getElem?_getD, List.getElem?_replicate, hi]
  · cases n <;> simp
  · intro c hc hc0
    simp at hc
    cases c with
    | zero => omega
    | succ c =>
      have hc' : c < n := by omega
      simp [List.getD_eq_getElem?_getD, List.getElem?_replicate, hc']
  · simp
  · simp [loadsOK, DEPOT, hm]
  · simp [finalLoad, DEPOT]
  · simp only [if_true, countTrue_cons, countTrue_replicate_false]
    omega

theorem complete_is_solution (m : Int) (s : State) (hf : Feasible m s) (h : allVisited s = true) :
    IsSolution m s := by
  refine ⟨hf, ?_, allVisited_at_depot m s hf h⟩
  obtain ⟨_, _, _, _, _, _, _, _, _, _, hvis, _⟩ := hf
  intro c hc hc0
  exact (hvis c hc hc0).1 (all_getD _ _ h hc)

/-! ### C11 -/

theorem step_type (c : Cfg) (D : Dist) (s : State) (a : Nat) :
    (step c D s a).2.stepType =
      if (allVisited (step c D s a).1 || !isValid s a) = true then .last else .mid := by
  unfold step condLast termination transition
  simp only []
  split <;> split <;> simp_all

theorem step_not_last (c : Cfg) (D : Dist) (s : State) (a : Nat)
    (h : (step c D s a).2.stepType ≠ .last) :
    isValid s a = true ∧ (step c D s a).1 = update c s a ∧ allVisited (update c s a) = false := by
  rw [step_type] at h
  have hv : isValid s a = true := by
    cases hh : isValid s a
    · simp [hh] at h
    · rfl
  have hs : (step c D s a).1 = update c s a := by unfold step; simp [hv]
  refine ⟨hv, hs, ?_⟩
  rw [hs] at h
  cases hh : allVisited (update c s a)
  · rfl
  · simp [hh] at h

theorem countTrue_lt_of_not_all (xs : List Bool) (h : xs.all id = false) :
    Jx.countTrue xs + 1 ≤ xs.length := by
  induction xs with
  | nil => simp at h
  | cons b xs ih =>
    rw [countTrue_cons]
    cases b with
    | false => have := countTrue_le xs; simp; omega
    | true =>
      have : xs.all id = false := by simpa using h
      have := ih this
      simp; omega

theorem progress (c : Cfg) (D : Dist) (s : State) (a : Nat) (hm : 0 ≤ c.maxCap)
    (hf : Feasible c.maxCap s) (ha : a < s.visited.length)
    (h : (step c D s a).2.stepType ≠ .last) :
    (step c D s a).1.numVisits = s.numVisits + 1 ∧ (step c D s a).1.numVisits ≤ 2 * numNodes s := by
  obtain ⟨hv, hs, hnall⟩ := step_not_last c D s a h
  have hleg := (isValid_iff_legal c.maxCap s a hf ha).1 hv
  have hf' := update_feasible c s a hm hf hleg
  rw [hs]
  refine ⟨by unfold update; rfl, ?_⟩
  obtain ⟨_, _, _, _, _, _, _, _, _, _, _, _, _, _, _, hcnt⟩ := hf'
  have hlt := countTrue_lt_of_not_all _ hnall
  have hlen := (update_lengths c s a).2.1
  rw [hlen] at hlt
  unfold numNodes
  split at hcnt <;> omega

/-- in any feasible state at most `2·num_nodes + 1` visits have been recorded (the first is the
start at the depot), i.e. at most `2·num_nodes` steps have been taken -/
theorem visits_bound (m : Int) (s : State) (hf : Feasible m s) : s.numVisits ≤ 2 * numNodes s + 1 := by
  obtain ⟨_, hL, _, _, _, _, _, _, _, _, _, hv0, _, _, _, hcnt⟩ := hf
  have := countTrue_le s.visited
  unfold numNodes
  split at hcnt
  · omega
  · rename_i hp
    have hvf : s.visited.getD DEPOT true = false := by
      rw [getD_default _ _ true false (by unfold DEPOT; omega)]
      cases h : s.visited.getD DEPOT false
      · rfl
      · exact absurd (hv0.1 h) hp
    have := countTrue_lt_of_false s.visited DEPOT (by unfold DEPOT; omega) hvf
    omega

/-! ### C09: the L1 step does what the rules say -/

theorem visits_update_legal (c : Cfg) (s : State) (a : Nat) (hf : Feasible c.maxCap s)
    (hleg : legal s a) : visits (update c s a) = visits s ++ [a] := by
  have hcount := update_count c s a hf hleg
  have hu := update_eq c s a hf.1 hleg.1
  unfold visits
  rw [hu]
  exact visits_update s a _ rfl (by simpa [DEPOT] using hcount.1)

/-- a legal action: the vehicle moves to the node, the node is appended to the visits, a customer
is marked visited and its demand is taken from the capacity, the depot refills the vehicle;
the instance is untouched; the episode ends exactly when nothing is left to visit -/
theorem step_legal_spec (c : Cfg) (D : Dist) (s : State) (a : Nat) (hf : Feasible c.maxCap s)
    (hleg : legal s a) :
    let s' := (step c D s a).1
    s'.position = a ∧ visits s' = visits s ++ [a] ∧
    s'.capacity = (if a = DEPOT then c.maxCap else s.capacity - s.demands.getD a 0) ∧
    (∀ x, 0 < x → x < s.visited.length → s'.visited.getD x false = (s.visited.getD x false || x == a)) ∧
    s'.demands = s.demands ∧ s'.coords = s.coords ∧
    ((step c D s a).2.stepType = .last ↔ allVisited s' = true) ∧
    ((step c D s a).2.stepType = .last ∨ (step c D s a).2.stepType = .mid) := by
  have hv := (isValid_iff_legal c.maxCap s a hf hleg.1).2 hleg
  have hs := step_legal c D s a hf hleg
  have hu := update_eq c s a hf.1 hleg.1
  simp only []
  refine ⟨?_, ?_, ?_, ?_, ?_, ?_, ?_, ?_⟩
  · rw [hs, hu]
  · rw [hs]; exact visits_update_legal c s a hf hleg
  · rw [hs, hu]
  · intro x hx0 hx
    rw [hs, hu]
    simp only []
    by_cases hxa : x = a
    · subst hxa; rw [getD_set_eq _ _ _ _ (by simpa using hx)]; simp
    · rw [getD_set_ne _ _ _ _ _ (fun h => hxa h.symm), getD_set_ne _ _ _ _ _ (by omega)]
      simp [hxa]
  · rw [hs, hu]
  · rw [hs, hu]
  · rw [step_type]; simp [hv]
  · rw [step_type]; split <;> simp

/-! ### C08 -/

theorem pathLen_snoc (D : Dist) (vs : List Nat) (u a : Nat) :
    pathLen D ((vs ++ [u]) ++ [a]) = pathLen D (vs ++ [u]) + dist D u a := by
  induction vs with
  | nil => simp [pathLen, Rat.add_zero, Rat.zero_add]
  | cons v vs ih =>
    cases vs with
    | nil => simp [pathLen, Rat.add_zero, Rat.zero_add]
    | cons w ws =>
      simp only [List.cons_append, pathLen] at ih ⊢
      rw [ih, Rat.add_assoc]

theorem visits_last (m : Int) (s : State) (hf : Feasible m s) :
    ∃ pre, visits s = pre ++ [s.position] := by
  obtain ⟨_, _, _, _, hk1, _, _, _, hpos, _⟩ := hf
  refine ⟨(List.range (s.numVisits - 1)).map (fun i => s.trajectory.getD i DEPOT), ?_⟩
  unfold visits
  have : s.numVisits = (s.numVisits - 1) + 1 := by omega
  rw [this, List.range_succ, List.map_append, hpos]
  simp

/-- the dense reward of a legal step is minus the growth of the route length (the closing term
added on the last step is `d(depot, depot)`) -/
theorem dense_telescopes (c : Cfg) (D : Dist) (s : State) (a : Nat) (hm : 0 ≤ c.maxCap)
    (hdense : c.dense = true) (hD : dist D DEPOT DEPOT = 0)
    (hf : Feasible c.maxCap s) (hleg : legal s a) :
    pathLen D (visits (step c D s a).1) = pathLen D (visits s) - (step c D s a).2.reward.sum := by
  have hv := (isValid_iff_legal c.maxCap s a hf hleg.1).2 hleg
  have hs := step_legal c D s a hf hleg
  have hf' := update_feasible c s a hm hf hleg
  have hr : (step c D s a).2.reward = [denseReward c D s (update c s a) true] := by
    unfold step condLast termination transition reward
    simp only [hv, hdense, if_true]
    split <;> rfl
  have hp : (update c s a).position = a := by unfold update; rfl
  obtain ⟨pre, hpre⟩ := visits_last c.maxCap s hf
  rw [hr, hs, visits_update_legal c s a hf hleg, hpre, pathLen_snoc]
  unfold denseReward
  simp only [if_true, hp, List.sum_cons, List.sum_nil, Rat.add_zero]
  by_cases hall : allVisited (update c s a) = true
  · have ha0 : a = DEPOT := by rw [← hp]; exact allVisited_at_depot c.maxCap _ hf' hall
    rw [if_pos hall, ha0, hD]
    simp [Rat.sub_eq_add_neg, Rat.neg_neg, Rat.add_zero, Rat.neg_add]
  · rw [if_neg hall]
    simp [Rat.sub_eq_add_neg, Rat.neg_neg]

/-- the sparse reward of a legal step: nothing before the end, minus the length of the closed
tour through the trajectory array at the end -/
theorem sparse_reward (c : Cfg) (D : Dist) (s : State) (a : Nat)
    (hsparse : c.dense = false) (hf : Feasible c.maxCap s) (hleg : legal s a) :
    (step c D s a).2.reward =
      [if (step c D s a).2.stepType = .last
       then -(computeTourLength D (step c D s a).1.trajectory) else 0] := by
  have hv := (isValid_iff_legal c.maxCap s a hf hleg.1).2 hleg
  have hs := step_legal c D s a hf hleg
  have hr : (step c D s a).2.reward = [sparseReward c D s (update c s a) true] := by
    unfold step condLast termination transition reward
    simp only [hv, hsparse, if_true]
    split <;> simp
  rw [hr, step_type, hs]
  unfold sparseReward
  simp [hv]

/-- at the end of an episode the route through the visits is already closed -/
theorem tourLength_final (m : Int) (D : Dist) (s : State) (hD : dist D DEPOT DEPOT = 0)
    (hf : Feasible m s) (h : allVisited s = true) : tourLength D s = pathLen D (visits s) := by
  obtain ⟨pre, hpre⟩ := visits_last m s hf
  unfold tourLength
  rw [hpre, pathLen_snoc, allVisited_at_depot m s hf h, hD, Rat.add_zero]

theorem zipsum_eq_pathLen (D : Dist) (t : Nat) (ts : List Nat) (x : Nat) :
    (List.zipWith (dist D) (t :: ts) (ts ++ [x])).sum = pathLen D (t :: ts ++ [x]) := by
  induction ts generalizing t with
  | nil => simp [pathLen]
  | cons u us ih =>
    have := ih u
    simp only [List.cons_append, List.zipWith_cons_cons, List.sum_cons, pathLen] at this ⊢
    rw [this]

theorem computeTourLength_eq_pathLen (D : Dist) (traj : List Nat) :
    computeTourLength D traj = pathLen D (traj ++ [traj.getD 0 0]) := by
  cases traj with
  | nil => simp [computeTourLength, pathLen]
  | cons t ts =>
    unfold computeTourLength
    simp only [List.drop_one, List.tail_cons, List.take_succ_cons, List.take_zero]
    rw [zipsum_eq_pathLen]
    simp

theorem pathLen_zeros (D : Dist) (hD : dist D 0 0 = 0) (j : Nat) :
    pathLen D (List.replicate j 0) = 0 := by
  induction j with
  | zero => rfl
  | succ j ih =>
    cases j with
    | zero => rfl
    | succ j =>
      have e : List.replicate (j + 1 + 1) (0 : Nat) = 0 :: 0 :: List.replicate j 0 := by
        simp [List.replicate_succ]
      have e' : List.replicate (j + 1) (0 : Nat) = 0 :: List.replicate j 0 := by
        simp [List.replicate_succ]
      rw [e]; rw [e'] at ih
      simp only [pathLen]; rw [hD, Rat.zero_add]; exact ih

theorem pathLen_pad (D : Dist) (hD : dist D 0 0 = 0) (xs : List Nat) (j : Nat) :
    pathLen D (xs ++ [0] ++ List.replicate j 0) = pathLen D (xs ++ [0]) := by
  induction xs with
  | nil =>
    have := pathLen_zeros D hD (j + 1)
    rw [List.replicate_succ] at this
    simp [this, pathLen]
  | cons x xs ih =>
    cases xs with
    | nil =>
      have := pathLen_zeros D hD (j + 1)
      rw [List.replicate_succ] at this
      simp only [List.cons_append, List.nil_append, pathLen]
      rw [this]
    | cons y ys =>
      simp only [List.cons_append, pathLen] at ih ⊢
      rw [ih]

theorem traj_pad (m : Int) (s : State) (hf : Feasible m s) :
    visits s ++ List.replicate (s.trajectory.length + 1 - s.numVisits) 0 = s.trajectory ++ [0] := by
  have hb := visits_bound m s hf
  obtain ⟨_, _, hT, _, hk1, _, _, hslots, _⟩ := hf
  rw [← hT] at hb
  apply List.ext_getElem?
  intro i
  unfold visits
  simp only [DEPOT] at hslots ⊢
  by_cases hik : i < s.numVisits
  · rw [List.getElem?_append_left (by simpa using hik)]
    simp only [List.getElem?_map, List.getElem?_range hik, Option.map_some]
    by_cases hiT : i < s.trajectory.length
    · rw [List.getElem?_append_left hiT]
      simp [List.getD_eq_getElem?_getD, List.getElem?_eq_getElem hiT]
    · have : i = s.trajectory.length := by omega
      rw [List.getElem?_append_right (by omega)]
      simp [List.getD_eq_getElem?_getD, List.getElem?_eq_none (Nat.le_of_not_lt hiT), this]
  · rw [List.getElem?_append_right (by simpa using Nat.le_of_not_lt hik)]
    simp only [List.length_map, List.length_range, List.getElem?_replicate]
    by_cases hiT : i < s.trajectory.length
    · rw [List.getElem?_append_left hiT, if_pos (by omega)]
      have := hslots i hiT (by omega)
      rw [List.getD_eq_getElem?_getD, List.getElem?_eq_getElem hiT] at this
      simp at this
      simp [List.getElem?_eq_getElem hiT, this]
    · rw [List.getElem?_append_right (by omega)]
      by_cases hiT' : i = s.trajectory.length
      · rw [if_pos (by omega)]; simp [hiT']
      · rw [if_neg (by omega)]
        have : 1 ≤ i - s.trajectory.length := by omega
        simp [List.getElem?_eq_none, this]

/-- the sparse objective (cyclic sum over the zero-padded trajectory array) is the length of the
tour through the visits and back to the depot -/
theorem computeTourLength_eq (m : Int) (D : Dist) (s : State) (hD : dist D DEPOT DEPOT = 0)
    (hf : Feasible m s) : computeTourLength D s.trajectory = tourLength D s := by
  have hpad := traj_pad m s hf
  have ht0 : s.trajectory.getD 0 0 = 0 := hf.2.2.2.2.2.1
  simp only [DEPOT] at hD
  rw [computeTourLength_eq_pathLen, ht0, ← hpad]
  unfold tourLength
  simp only [DEPOT]
  cases hj : s.trajectory.length + 1 - s.numVisits with
  | zero =>
    rw [hj] at hpad
    simp only [List.replicate_zero, List.append_nil] at hpad ⊢
    rw [hpad]
    have := pathLen_pad D hD s.trajectory 1
    simpa using this.symm
  | succ j =>
    rw [List.replicate_succ]
    have := pathLen_pad D hD (visits s) j
    simpa using this

/-- sparse reward of a legal step in terms of the documented objective -/
theorem sparse_reward_objective (c : Cfg) (D : Dist) (s : State) (a : Nat) (hm : 0 ≤ c.maxCap)
    (hsparse : c.dense = false) (hD : dist D DEPOT DEPOT = 0) (hf : Feasible c.maxCap s)
    (hleg : legal s a) :
    (step c D s a).2.reward =
      [if (step c D s a).2.stepType = .last then -(tourLength D (step c D s a).1) else 0] := by
  rw [sparse_reward c D s a hsparse hf hleg,
    computeTourLength_eq c.maxCap D _ hD (step_feasible c D s a hm hf hleg)]

/-! #### whole episodes -/

/-- sum of the rewards when the actions `as` are played from `s` until the episode ends -/
def returnOf (c : Cfg) (D : Dist) : State → List Nat → Rat
  | _, [] => 0
  | s, a :: as =>
    (step c D s a).2.reward.sum +
      (if (step c D s a).2.stepType = .last then 0 else returnOf c D (step c D s a).1 as)

/-- the state in which that episode ends -/
def endState (c : Cfg) (D : Dist) : State → List Nat → State
  | s, [] => s
  | s, a :: as =>
    if (step c D s a).2.stepType = .last then (step c D s a).1 else endState c D (step c D s a).1 as

/-- `as` is a complete episode of legal actions from `s`: every action is legal where it is played
and the episode ends exactly with the last one -/
def LegalEpisode (c : Cfg) (D : Dist) : State → List Nat → Prop
  | _, [] => False
  | s, a :: as =>
    legal s a ∧
      (if (step c D s a).2.stepType = .last then as = [] else LegalEpisode c D (step c D s a).1 as)

instance decLegalEpisode (c : Cfg) (D : Dist) :
    (s : State) → (as : List Nat) → Decidable (LegalEpisode c D s as)
  | _, [] => isFalse (fun h => h)
  | s, a :: as =>
    have := decLegalEpisode c D (step c D s a).1 as
    inferInstanceAs (Decidable (legal s a ∧
      (if (step c D s a).2.stepType = .last then as = []
       else LegalEpisode c D (step c D s a).1 as)))

theorem dense_return (c : Cfg) (D : Dist) (s : State) (as : List Nat) (hm : 0 ≤ c.maxCap)
    (hdense : c.dense = true) (hD : dist D DEPOT DEPOT = 0) (hf : Feasible c.maxCap s)
    (hep : LegalEpisode c D s as) :
    returnOf c D s as = pathLen D (visits s) - tourLength D (endState c D s as) := by
  induction as generalizing s with
  | nil => exact absurd hep (by simp [LegalEpisode])
  | cons a as ih =>
    obtain ⟨hleg, hrest⟩ := hep
    have htel := dense_telescopes c D s a hm hdense hD hf hleg
    have hf' := step_feasible c D s a hm hf hleg
    have hspec := step_legal_spec c D s a hf hleg
    simp only [] at hspec
    unfold returnOf endState
    by_cases hlast : (step c D s a).2.stepType = .last
    · simp only [hlast, if_true]
      have hall := hspec.2.2.2.2.2.2.1.1 hlast
      rw [tourLength_final c.maxCap D _ hD hf' hall]
      grind
    · simp only [hlast, if_false] at hrest ⊢
      rw [ih _ hf' hrest]
      grind

theorem sparse_return (c : Cfg) (D : Dist) (s : State) (as : List Nat) (hm : 0 ≤ c.maxCap)
    (hsparse : c.dense = false) (hD : dist D DEPOT DEPOT = 0) (hf : Feasible c.maxCap s)
    (hep : LegalEpisode c D s as) :
    returnOf c D s as = - tourLength D (endState c D s as) := by
  induction as generalizing s with
  | nil => exact absurd hep (by simp [LegalEpisode])
  | cons a as ih =>
    obtain ⟨hleg, hrest⟩ := hep
    have hr := sparse_reward_objective c D s a hm hsparse hD hf hleg
    have hf' := step_feasible c D s a hm hf hleg
    unfold returnOf endState
    by_cases hlast : (step c D s a).2.stepType = .last
    · simp only [hlast, if_true] at hr ⊢
      rw [hr]; simp [Rat.add_zero]
    · simp only [hlast, if_false] at hrest hr ⊢
      rw [ih _ hf' hrest, hr]; simp [Rat.zero_add]

/-- the route length recorded in a reset state is zero -/
theorem generate_pathLen (D : Dist) (n : Nat) (maxCap : Int) (cd : List (List Rat)) (dd : List Int) :
    pathLen D (visits (generate n maxCap cd dd)) = 0 := by
  have hvs : visits (generate n maxCap cd dd) = [0] := by
    rw [generate_eq]
    unfold visits
    cases n <;> simp [DEPOT, List.range_succ]
  rw [hvs]; rfl

/-- the reward function influences neither the successor state nor the step type -/
theorem step_reward_indep (c : Cfg) (b : Bool) (D : Dist) (s : State) (a : Nat) :
    (step { c with dense := b } D s a).1 = (step c D s a).1 ∧
    (step { c with dense := b } D s a).2.stepType = (step c D s a).2.stepType := by
  refine ⟨by unfold step; rfl, ?_⟩
  rw [step_type, step_type]
  have : (step { c with dense := b } D s a).1 = (step c D s a).1 := by unfold step; rfl
  rw [this]

theorem endState_reward_indep (c : Cfg) (b : Bool) (D : Dist) (s : State) (as : List Nat) :
    endState { c with dense := b } D s as = endState c D s as := by
  induction as generalizing s with
  | nil => rfl
  | cons a as ih =>
    unfold endState
    rw [(step_reward_indep c b D s a).1, (step_reward_indep c b D s a).2, ih]

theorem legalEpisode_reward_indep (c : Cfg) (b : Bool) (D : Dist) (s : State) (as : List Nat) :
    LegalEpisode { c with dense := b } D s as ↔ LegalEpisode c D s as := by
  induction as generalizing s with
  | nil => simp [LegalEpisode]
  | cons a as ih =>
    unfold LegalEpisode
    rw [(step_reward_indep c b D s a).1, (step_reward_indep c b D s a).2, ih]

/-- dense and sparse reward functions give the same return on the same complete legal episode
from a reset state, namely minus the tour length of the final state -/
theorem dense_eq_sparse (c : Cfg) (D : Dist) (n : Nat) (cd : List (List Rat)) (dd : List Int)
    (as : List Nat) (hm : 0 ≤ c.maxCap) (hD : dist D DEPOT DEPOT = 0) (hd : dd.length = n + 1)
    (hep : LegalEpisode c D (generate n c.maxCap cd dd) as) :
    returnOf { c with dense := true } D (generate n c.maxCap cd dd) as =
      - tourLength D (endState c D (generate n c.maxCap cd dd) as) ∧
    returnOf { c with dense := false } D (generate n c.maxCap cd dd) as =
      - tourLength D (endState c D (generate n c.maxCap cd dd) as) := by
  have hf := generate_feasible n c.maxCap cd dd hm hd
  constructor
  · have := dense_return { c with dense := true } D _ as hm rfl hD hf
      ((legalEpisode_reward_indep c true D _ as).2 hep)
    rw [this, generate_pathLen, endState_reward_indep]
    grind
  · have := sparse_return { c with dense := false } D _ as hm rfl hD hf
      ((legalEpisode_reward_indep c false D _ as).2 hep)
    rw [this, endState_reward_indep]

/-! ### C10 -/

theorem generate_instance (n : Nat) (maxCap maxDemand : Int) (cd : List (List Rat)) (dd : List Int)
    (hcon : maxDemand ≤ maxCap) (hd : validDraw n maxDemand cd dd) :
    demandsOK maxCap maxDemand (generate n maxCap cd dd) ∧ coordsInBox (generate n maxCap cd dd) ∧
    IsInitial n maxCap (generate n maxCap cd dd) := by
  obtain ⟨h1, h2, h3, h4⟩ := hd
  rw [generate_eq]
  refine ⟨⟨?_, ?_, ?_⟩, h3, ⟨h1, by simp [h2], rfl, rfl, rfl, rfl, rfl⟩⟩
  · simp only [DEPOT]; rw [getD_set_eq _ _ _ _ (by omega)]
  · intro d hdm
    simp only [List.drop_set] at hdm
    simp at hdm
    exact h4 d (List.mem_of_mem_tail hdm)
  · intro d hdm
    simp only [] at hdm
    have := List.mem_or_eq_of_mem_set hdm
    cases this with
    | inl h => have := h4 d h; omega
    | inr h =>
      have : 1 ≤ maxDemand := by
        have hne : dd ≠ [] := by intro h0; simp [h0] at h2
        obtain ⟨x, hx⟩ := List.exists_mem_of_ne_nil dd hne
        have := h4 x hx; omega
      omega

end CVRP
