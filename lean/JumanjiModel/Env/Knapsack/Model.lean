/-
Knapsack (jumanji/environments/packing/knapsack/{env,reward,types}.py).  Import-free.

L1 = transliteration of `step`, `_update_state`, `_state_to_observation`, `DenseReward`,
`SparseReward`.  The float32 subtraction of the budget is the parameter `rnd` (identity = exact ℚ;
`Jx.roundF32` in the executable correspondence).
L2 = `legal`, `Feasible`, `packedValue` — the rules, stated without looking at the mask code.
-/
import JumanjiModel.Prim.Idx
import JumanjiModel.Core.TimeStep
namespace Knapsack
open Jm

structure State where
  weights : List Rat
  values : List Rat
  packed : List Bool
  remaining : Rat
  deriving Repr, DecidableEq

structure Obs where
  weights : List Rat
  values : List Rat
  packed : List Bool
  mask : List Bool
  deriving Repr, DecidableEq

/-- `_state_to_observation`: `~packed & (weights <= remaining_budget)` -/
def maskOf (s : State) : List Bool :=
  List.zipWith (fun p w => !p && decide (w ≤ s.remaining)) s.packed s.weights

def observe (s : State) : Obs :=
  { weights := s.weights, values := s.values, packed := s.packed, mask := maskOf s }

/-- `_update_state` -/
def update (rnd : Rat → Rat) (s : State) (a : Int) : State :=
  { s with packed := Jx.setWD s.packed a true
           remaining := rnd (s.remaining - Jx.getWC s.weights 0 a) }

/-- the validity test `step` itself applies -/
def isValid (s : State) (a : Int) : Bool :=
  decide (s.remaining ≥ Jx.getWC s.weights 0 a) && !(Jx.getWC s.packed false a)

def dot (ps : List Bool) (vs : List Rat) : Rat :=
  (List.zipWith (fun p v => if p then v else 0) ps vs).sum

/-- reward functions: `dense = true` is `DenseReward`, else `SparseReward` -/
def reward (dense : Bool) (s : State) (a : Int) (s' : State) (valid done : Bool) : Rat :=
  if dense then (if valid then Jx.getWC s.values 0 a else 0)
  else (if done && valid then dot s'.packed s'.values else 0)

def step (rnd : Rat → Rat) (dense : Bool) (s : State) (a : Int) : State × TimeStep Obs :=
  let valid := isValid s a
  let s' := if valid then update rnd s a else s
  let o := observe s'
  let noItems := !(o.mask.any id)
  let done := noItems || !valid
  let r := reward dense s a s' valid done
  (s', condLast done [r] o)

/-! ### L2: the rules -/

/-- an item may be packed iff it exists, is not yet packed and fits in the remaining budget -/
def legal (s : State) (a : Nat) : Prop :=
  a < s.packed.length ∧ a < s.weights.length ∧ s.packed.getD a true = false ∧ s.weights.getD a 0 ≤ s.remaining

instance (s : State) (a : Nat) : Decidable (legal s a) := by unfold legal; infer_instance

/-- total weight of the packed items (exact) -/
def packedWeight (s : State) : Rat := dot s.packed s.weights
def packedValue (s : State) : Rat := dot s.packed s.values

/-- hard constraint (exact arithmetic): packed weight within the budget, bookkeeping consistent -/
def Feasible (budget : Rat) (s : State) : Prop :=
  s.packed.length = s.weights.length ∧ s.values.length = s.weights.length ∧
  0 ≤ s.remaining ∧ s.remaining = budget - packedWeight s

instance (b : Rat) (s : State) : Decidable (Feasible b s) := by unfold Feasible; infer_instance

/-- executable weak form used on float32 implementation states: remaining ≥ 0 and
packed weight ≤ budget + tolerance -/
def feasibleApprox (budget tol : Rat) (s : State) : Bool :=
  decide (0 ≤ s.remaining) && decide (packedWeight s ≤ budget + tol) &&
  decide (s.remaining - (budget - packedWeight s) ≤ tol) && decide ((budget - packedWeight s) - s.remaining ≤ tol)

/-! ### L2: one step of the game as the documentation states it (C09)

docs/environments/knapsack.md and the class docstring: an action is the index of the next item to pack;
it is valid iff the item is not yet packed and its weight fits in the remaining budget; packing adds
exactly that item to the packed set and lowers the remaining budget by its weight; "a trajectory
terminates when no further item can be added to the knapsack or the chosen action is invalid"; the
reward of an invalid action is 0, dense = value of the packed item, sparse = total value of the bag at
the end of the episode (0 before). -/

/-- the state has one `packed` flag and one value per item -/
def WellShaped (s : State) : Prop :=
  s.packed.length = s.weights.length ∧ s.values.length = s.weights.length

instance (s : State) : Decidable (WellShaped s) := by unfold WellShaped; infer_instance

/-- some item can still be added to the knapsack -/
def anyLegal (s : State) : Bool := (List.range s.weights.length).any (fun i => decide (legal s i))

/-- the documented observation: the problem data, the packed flags and "which items can be packed" -/
def observeL2 (s : State) : Obs :=
  { weights := s.weights, values := s.values, packed := s.packed,
    mask := (List.range s.weights.length).map (fun i => decide (legal s i)) }

/-- pack item `a`: the packed set grows by exactly `a`, the budget decreases by its weight (`rnd` = the
rounding of that one subtraction, identity in exact arithmetic) -/
def packL2 (rnd : Rat → Rat) (s : State) (a : Nat) : State :=
  { s with packed := s.packed.set a true, remaining := rnd (s.remaining - s.weights.getD a 0) }

def stepL2 (rnd : Rat → Rat) (dense : Bool) (s : State) (a : Nat) : State × TimeStep Obs :=
  if legal s a then
    let s' := packL2 rnd s a
    if anyLegal s' then
      (s', transition [if dense then s.values.getD a 0 else 0] (observeL2 s'))
    else
      (s', termination [if dense then s.values.getD a 0 else packedValue s'] (observeL2 s'))
  else (s, termination [0] (observeL2 s))

/-! ### L2: hard constraint and completeness recomputed from `packed` and `weights` only (C06) -/

/-- the packed items weigh at most the budget (`remaining` is not consulted) -/
def WithinBudget (budget : Rat) (s : State) : Prop := packedWeight s ≤ budget

instance (b : Rat) (s : State) : Decidable (WithinBudget b s) := by unfold WithinBudget; infer_instance

/-- the packed set cannot be extended: every unpacked item weighs more than what is left of the budget -/
def Maximal (budget : Rat) (s : State) : Prop :=
  ∀ i, i < s.weights.length → s.packed.getD i true = false → budget - packedWeight s < s.weights.getD i 0

/-- executable form of "complete feasible solution" for implementation (float32) states: feasible within the
tolerance and no item is legal any more -/
def solutionApprox (budget tol : Rat) (s : State) : Bool := feasibleApprox budget tol s && !anyLegal s

/-! ### L1: `RandomGenerator.__call__` (generator.py) and its certificate (C10)

`weights, values = jax.random.uniform(sample_key, (2, num_items), minval=0, maxval=1)` are the draw
parameters; `packed_items = zeros(num_items)`, `remaining_budget = total_budget`. -/

def generate (numItems : Nat) (totalBudget : Rat) (weights values : List Rat) : State :=
  { weights := weights, values := values, packed := List.replicate numItems false, remaining := totalBudget }

def inUnit (xs : List Rat) : Bool := xs.all (fun x => decide (0 ≤ x) && decide (x ≤ 1))

/-- the certificate evaluated on the implementation's reset states: `num_items` weights and values, all in
[0, 1]; nothing packed; the whole budget left -/
def instanceOK (numItems : Nat) (totalBudget : Rat) (s : State) : Bool :=
  decide (s.weights.length = numItems) && decide (s.values.length = numItems) &&
  decide (s.packed = List.replicate numItems false) && decide (s.remaining = totalBudget) &&
  inUnit s.weights && inUnit s.values

end Knapsack
