/-
Knapsack (jumanji/environments/packing/knapsack/{env,reward,types}.py).  Import-free.

L1 = transliteration of `step`, `_update_state`, `_state_to_observation`, `DenseReward`,
`SparseReward`.  The float32 subtraction of the budget is the parameter `rnd` (identity = exact ℚ;
`Jx.roundF32` in the executable correspondence).
L2 = `legal`, `Feasible`, `packedValue` — the rules, stated without looking at the mask code.
-/
import JumanjiModel.Prim.Idx
import JumanjiModel.Core.TimeStep
namespace Knapsack
open Jm

structure State where
  weights : List Rat
  values : List Rat
  packed : List Bool
  remaining : Rat
  deriving Repr, DecidableEq

structure Obs where
  weights : List Rat
  values : List Rat
  packed : List Bool
  mask : List Bool
  deriving Repr, DecidableEq

/-- `_state_to_observation`: `~packed & (weights <= remaining_budget)` -/
def maskOf (s : State) : List Bool :=
  List.zipWith (fun p w => !p && decide (w ≤ s.remaining)) s.packed s.weights

def observe (s : State) : Obs :=
  { weights := s.weights, values := s.values, packed := s.packed, mask := maskOf s }

/-- `_update_state` -/
def update (rnd : Rat → Rat) (s : State) (a : Int) : State :=
  { s with packed := Jx.setWD s.packed a true
           remaining := rnd (s.remaining - Jx.getWC s.weights 0 a) }

/-- the validity test `step` itself applies -/
def isValid (s : State) (a : Int) : Bool :=
  decide (s.remaining ≥ Jx.getWC s.weights 0 a) && !(Jx.getWC s.packed false a)

def dot (ps : List Bool) (vs : List Rat) : Rat :=
  (List.zipWith (fun p v => if p then v else 0) ps vs).sum

/-- reward functions: `dense = true` is `DenseReward`, else `SparseReward` -/
def reward (dense : Bool) (s : State) (a : Int) (s' : State) (valid done : Bool) : Rat :=
  if dense then (if valid then Jx.getWC s.values 0 a else 0)
  else (if done && valid then dot s'.packed s'.values else 0)

def step (rnd : Rat → Rat) (dense : Bool) (s : State) (a : Int) : State × TimeStep Obs :=
  let valid := isValid s a
  let s' := if valid then update rnd s a else s
  let o := observe s'
  let noItems := !(o.mask.any id)
  let done := noItems || !valid
  let r := reward dense s a s' valid done
  (s', condLast done [r] o)

/-! ### L2: the rules -/

/-- an item may be packed iff it exists, is not yet packed and fits in the remaining budget -/
def legal (s : State) (a : Nat) : Prop :=
  a < s.packed.length ∧ a < s.weights.length ∧ s.packed.getD a true = false ∧ s.weights.getD a 0 ≤ s.remaining

instance (s : State) (a : Nat) : Decidable (legal s a) := by unfold legal; infer_instance

/-- total weight of the packed items (exact) -/
def packedWeight (s : State) : Rat := dot s.packed s.weights
def packedValue (s : State) : Rat := dot s.packed s.values

/-- hard constraint (exact arithmetic): packed weight within the budget, bookkeeping consistent -/
def Feasible (budget : Rat) (s : State) : Prop :=
  s.packed.length = s.weights.length ∧ s.values.length = s.weights.length ∧
  0 ≤ s.remaining ∧ s.remaining = budget - packedWeight s

instance (b : Rat) (s : State) : Decidable (Feasible b s) := by unfold Feasible; infer_instance

/-- executable weak form used on float32 implementation states: remaining ≥ 0 and
packed weight ≤ budget + tolerance -/
def feasibleApprox (budget tol : Rat) (s : State) : Bool :=
  decide (0 ≤ s.remaining) && decide (packedWeight s ≤ budget + tol) &&
  decide (s.remaining - (budget - packedWeight s) ≤ tol) && decide ((budget - packedWeight s) - s.remaining ≤ tol)

end Knapsack
