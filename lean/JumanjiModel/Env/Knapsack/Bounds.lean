/-
Knapsack: proved value bounds of the observation (property C01).

`obsBounds` = the interval in which every leaf of the model's observation provably stays (keys = the
leaf paths of `Knapsack.observation_spec`); `obsLeaves` = the observation flattened to those leaves.
`reset` = `Knapsack.reset` / `RandomGenerator.__call__` given the sampled weights and values (draw
parameters); `validDraw` = what `jax.random.uniform(minval=0, maxval=1)` can produce.
`UnitItems` (weights and values in the unit interval) is the invariant: established by `reset`,
preserved by `step` (which never touches the problem data).
-/
import JumanjiModel.Env.Knapsack.Model
import JumanjiModel.Core.ObsBoundsCO
namespace Knapsack
open Jm Jm.OB

/-- proved intervals; no configuration value enters (all four declared intervals are `[0, 1]`) -/
def obsBounds : Table :=
  [("weights", some 0, some 1), ("values", some 0, some 1),
   ("packed_items", some 0, some 1), ("action_mask", some 0, some 1)]

def obsLeaves (o : Obs) : Leaves :=
  [("weights", o.weights), ("values", o.values),
   ("packed_items", o.packed.map b2r), ("action_mask", o.mask.map b2r)]

/-- `Knapsack.reset` with `RandomGenerator`: the sampled `weights`, `values` are draw parameters -/
def reset (budget : Rat) (weights values : List Rat) : State × TimeStep Obs :=
  let s : State := { weights := weights, values := values,
                     packed := List.replicate weights.length false, remaining := budget }
  (s, restart (observe s))

/-- what `jax.random.uniform(key, (2, num_items), minval=0, maxval=1)` can produce -/
def validDraw (n : Nat) (weights values : List Rat) : Prop :=
  weights.length = n ∧ values.length = n ∧
  (∀ w ∈ weights, 0 ≤ w ∧ w ≤ 1) ∧ (∀ v ∈ values, 0 ≤ v ∧ v ≤ 1)

instance (n : Nat) (w v : List Rat) : Decidable (validDraw n w v) := by unfold validDraw; infer_instance

/-- the invariant: problem data in the unit interval -/
def UnitItems (s : State) : Prop :=
  (∀ w ∈ s.weights, 0 ≤ w ∧ w ≤ 1) ∧ (∀ v ∈ s.values, 0 ≤ v ∧ v ≤ 1)

instance (s : State) : Decidable (UnitItems s) := by unfold UnitItems; infer_instance

theorem reset_unitItems (n : Nat) (budget : Rat) (w v : List Rat) (h : validDraw n w v) :
    UnitItems (reset budget w v).1 := ⟨h.2.2.1, h.2.2.2⟩

theorem step_weights (rnd : Rat → Rat) (dense : Bool) (s : State) (a : Int) :
    (step rnd dense s a).1.weights = s.weights ∧ (step rnd dense s a).1.values = s.values := by
  simp only [step, update]; split <;> simp

theorem step_unitItems (rnd : Rat → Rat) (dense : Bool) (s : State) (a : Int) (h : UnitItems s) :
    UnitItems (step rnd dense s a).1 := by
  unfold UnitItems; rw [(step_weights rnd dense s a).1, (step_weights rnd dense s a).2]; exact h

theorem observe_in_bounds (s : State) (h : UnitItems s) : InBounds obsBounds (obsLeaves (observe s)) := by
  refine inBounds_cons _ _ _ _ _ _ rfl ?_ <| inBounds_cons _ _ _ _ _ _ rfl ?_ <|
    inBounds_cons _ _ _ _ _ _ rfl (bools_in01 _) <| inBounds_cons _ _ _ _ _ _ rfl (bools_in01 _) <|
    inBounds_nil _
  · exact fun v hv => h.1 v hv
  · exact fun v hv => h.2 v hv

theorem step_obs (rnd : Rat → Rat) (dense : Bool) (s : State) (a : Int) :
    (step rnd dense s a).2.obs = observe (step rnd dense s a).1 := by
  simp only [step]; exact condLast_obs _ _ _

theorem reset_obs_in_bounds (n : Nat) (budget : Rat) (w v : List Rat) (h : validDraw n w v) :
    InBounds obsBounds (obsLeaves (reset budget w v).2.obs) :=
  observe_in_bounds _ (reset_unitItems n budget w v h)

theorem step_obs_in_bounds (rnd : Rat → Rat) (dense : Bool) (s : State) (a : Int) (h : UnitItems s) :
    InBounds obsBounds (obsLeaves (step rnd dense s a).2.obs) := by
  rw [step_obs]; exact observe_in_bounds _ (step_unitItems rnd dense s a h)

end Knapsack
