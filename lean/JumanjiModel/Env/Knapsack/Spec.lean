/-
Knapsack — wave 3 (statement audit of Props/Env/Knapsack.lean and the listed gaps):
* C01: the declared `observation_spec` / `action_spec` as `Sp` values (`obsSpec n`, `actionSpec n`), equal to the
  generated literals of Gen/Specs.lean, and MEMBERSHIP (structure, shapes, dtypes, bounds) of every observation `reset`
  and `step` emit (`reset_obs_valid`, `step_obs_valid`) with the converse `obs_valid_only`;
* C04: `step_agrees_step` — the statement about `step` itself (legal ↔ `step` packed the item);
* C11: whole episodes end within `num_items` steps whatever in-spec actions are played (`ends_within_horizon`);
* C12: the observations of `reset` and `step` are the DOCUMENTED function `observeL2` of the state.
-/
import JumanjiModel.Env.Knapsack.Lemmas
import JumanjiModel.Env.Knapsack.Bounds
import JumanjiModel.Env.Knapsack.Episode
import JumanjiModel.Env.RoutingSpecValid
import JumanjiModel.Env.HorizonEpisode
namespace Knapsack
open Jm Sp PzS

/-! ### the declared specs (env.py `observation_spec`, `action_spec`); `n` = `num_items` -/

/-- four `BoundedArray((num_items,), …, 0, 1)`: `weights`, `values` float; `packed_items`, `action_mask` bool -/
def obsSpec (n : Nat) : Sp.Nested :=
  [("weights", .bounded [n] .float32 "weights" [] [0] [] [1]),
   ("values", .bounded [n] .float32 "values" [] [0] [] [1]),
   ("packed_items", .bounded [n] .bool "packed_items" [] [0] [] [1]),
   ("action_mask", .bounded [n] .bool "action_mask" [] [0] [] [1])]

/-- `DiscreteArray(num_items)` -/
def actionSpec (n : Nat) : Leaf := .discrete n .int32 "action"

/-- a model observation as the arrays the implementation emits; every shape is READ OFF the value -/
def toNValue (o : Obs) : NValue :=
  [("weights", ⟨[o.weights.length], .float32, o.weights⟩),
   ("values", ⟨[o.values.length], .float32, o.values⟩),
   ("packed_items", ⟨[o.packed.length], .bool, ofBools o.packed⟩),
   ("action_mask", ⟨[o.mask.length], .bool, ofBools o.mask⟩)]

/-- an observation with `n` entries per field and weights, values in the unit interval is a member of the spec -/
theorem obs_valid (n : Nat) (o : Obs) (hw : o.weights.length = n) (hv : o.values.length = n)
    (hp : o.packed.length = n) (hm : o.mask.length = n) (hwu : ∀ x ∈ o.weights, 0 ≤ x ∧ x ≤ 1)
    (hvu : ∀ x ∈ o.values, 0 ≤ x ∧ x ≤ 1) : (obsSpec n).valid (toNValue o) = true := by
  have h1 : (Leaf.bounded [n] .float32 "weights" [] [0] [] [1]).valid ⟨[o.weights.length], .float32, o.weights⟩ = true := by
    rw [hw]; exact valid_scalar_bounded _ _ _ _ _ _ (by simp [prod_one, hw]) hwu
  have h2 : (Leaf.bounded [n] .float32 "values" [] [0] [] [1]).valid ⟨[o.values.length], .float32, o.values⟩ = true := by
    rw [hv]; exact valid_scalar_bounded _ _ _ _ _ _ (by simp [prod_one, hv]) hvu
  have h3 := valid_bools n "packed_items" o.packed hp
  have h4 := valid_bools n "action_mask" o.mask hm
  simp [Nested.valid, obsSpec, toNValue, h1, h2, h3, h4]

/-- … and `validate` accepts nothing else (so membership is not hollow) -/
theorem obs_valid_only (n : Nat) (o : Obs) (h : (obsSpec n).valid (toNValue o) = true) :
    o.weights.length = n ∧ o.values.length = n ∧ o.packed.length = n ∧ o.mask.length = n ∧
    (∀ x ∈ o.weights, 0 ≤ x ∧ x ≤ 1) ∧ (∀ x ∈ o.values, 0 ≤ x ∧ x ≤ 1) := by
  simp only [Nested.valid, obsSpec, toNValue, List.map_cons, List.map_nil, List.zipWith_cons_cons, List.zipWith_nil_right,
    List.all_cons, List.all_nil, id, Bool.and_true, Bool.and_eq_true, beq_self_eq_true, true_and] at h
  obtain ⟨h1, h2, h3, h4⟩ := h
  rw [valid_scalar_bounded_iff] at h1 h2 h3 h4
  refine ⟨by simpa using h1.1, by simpa using h2.1, by simpa using h3.1, by simpa using h4.1, h1.2.2.2, h2.2.2.2⟩

/-- the invariant behind membership: `n` weights, values and flags; problem data in the unit interval -/
def SpecInv (n : Nat) (s : State) : Prop := s.weights.length = n ∧ WellShaped s ∧ UnitItems s

instance (n : Nat) (s : State) : Decidable (SpecInv n s) := by unfold SpecInv; infer_instance

theorem maskOf_length (s : State) (h : s.packed.length = s.weights.length) : (maskOf s).length = s.weights.length := by
  unfold maskOf; simp [h]

theorem observe_valid (n : Nat) (s : State) (h : SpecInv n s) : (obsSpec n).valid (toNValue (observe s)) = true := by
  obtain ⟨hn, ⟨hp, hv⟩, hu⟩ := h
  exact obs_valid n _ hn (by simpa [observe, hn] using hv) (by simpa [observe, hn] using hp)
    (by simp only [observe]; rw [maskOf_length s hp, hn]) hu.1 hu.2

theorem reset_specInv (n : Nat) (budget : Rat) (w v : List Rat) (h : validDraw n w v) :
    SpecInv n (reset budget w v).1 := by
  refine ⟨h.1, ⟨by simp [reset], by simp [reset, h.1, h.2.1]⟩, reset_unitItems n budget w v h⟩

theorem step_specInv (n : Nat) (rnd : Rat → Rat) (dense : Bool) (s : State) (a : Int) (h : SpecInv n s) :
    SpecInv n (step rnd dense s a).1 := by
  obtain ⟨hn, hs, hu⟩ := h
  exact ⟨by rw [(step_weights rnd dense s a).1]; exact hn, step_wellShaped rnd dense s a hs,
    step_unitItems rnd dense s a hu⟩

theorem reset_obs_valid (n : Nat) (budget : Rat) (w v : List Rat) (h : validDraw n w v) :
    (obsSpec n).valid (toNValue (reset budget w v).2.obs) = true :=
  observe_valid n _ (reset_specInv n budget w v h)

theorem step_obs_valid (n : Nat) (rnd : Rat → Rat) (dense : Bool) (s : State) (a : Int) (h : SpecInv n s) :
    (obsSpec n).valid (toNValue (step rnd dense s a).2.obs) = true := by
  rw [step_obs]; exact observe_valid n _ (step_specInv n rnd dense s a h)

theorem condLast_mid_or_last {O : Type} (b : Bool) (r : List Rat) (o : O) :
    (condLast b r o).stepType = .mid ∨ (condLast b r o).stepType = .last := by
  cases b <;> simp [condLast, termination, transition]

theorem step_mid_or_last (rnd : Rat → Rat) (dense : Bool) (s : State) (a : Int) :
    (step rnd dense s a).2.stepType = .mid ∨ (step rnd dense s a).2.stepType = .last := by
  simp only [step]; exact condLast_mid_or_last _ _ _

/-- `action_spec.generate_value()` = 0 is a member of the action spec and `step` accepts it in every state of the invariant:
the answer is a MID or LAST timestep whose observation is in the spec -/
theorem step_accepts_generate (n : Nat) (hn : 0 < n) (rnd : Rat → Rat) (dense : Bool) (s : State) (h : SpecInv n s) :
    (actionSpec n).generate = ⟨[], .int32, [0]⟩ ∧ (actionSpec n).valid (actionSpec n).generate = true ∧
    (obsSpec n).valid (toNValue (step rnd dense s 0).2.obs) = true ∧
    ((step rnd dense s 0).2.stepType = .mid ∨ (step rnd dense s 0).2.stepType = .last) :=
  ⟨(discrete_generate n "action" hn).1, (discrete_generate n "action" hn).2, step_obs_valid n rnd dense s 0 h,
   step_mid_or_last rnd dense s 0⟩

/-- every state of every play from `reset` (ANY action values, stepping on after LAST included) satisfies the invariant -/
theorem specInv_along (n : Nat) (rnd : Rat → Rat) (dense : Bool) (s : State) (as : List Int) (h : SpecInv n s) :
    SpecInv n ((Ep.ofStep (step rnd dense) (fun _ => 0)).run s as) := by
  induction as generalizing s with
  | nil => exact h
  | cons a as ih => exact ih _ (step_specInv n rnd dense s a h)

/-! ### C04: the validity test as `step` applies it -/

theorem set_true_ne (l : List Bool) (a : Nat) (ha : a < l.length) (h : l.getD a true = false) : l.set a true ≠ l := by
  intro he
  have : (l.set a true).getD a true = true := by simp [List.getD_eq_getElem?_getD, ha]
  rw [he, h] at this; cases this

/-- `step` treats an in-range action as valid exactly when the rules allow it: a legal action is carried out (the
successor is the state with that item packed), an illegal one changes nothing, ends the episode and pays 0; so the packed
set changes iff the action was legal -/
theorem step_agrees_step (rnd : Rat → Rat) (dense : Bool) (s : State) (a : Nat) (hs : WellShaped s)
    (ha : a < s.weights.length) :
    (legal s a → (step rnd dense s a).1 = packL2 rnd s a) ∧
    (¬ legal s a → (step rnd dense s a).1 = s ∧ (step rnd dense s a).2.stepType = .last ∧
       (step rnd dense s a).2.reward = [0]) ∧
    (legal s a ↔ (step rnd dense s a).1.packed ≠ s.packed) := by
  have hp : a < s.packed.length := by have := hs.1; omega
  have h1 : legal s a → (step rnd dense s a).1 = packL2 rnd s a := by
    intro hl
    rw [step_eq_spec rnd dense s a hs ha]
    unfold stepL2
    rw [if_pos hl]
    simp only []
    split <;> rfl
  have h2 := illegal_step rnd dense s a hs.1 ha
  refine ⟨h1, h2, ?_⟩
  constructor
  · intro hl
    rw [h1 hl]
    exact set_true_ne s.packed a hp hl.2.2.1
  · intro hne
    by_cases hl : legal s a
    · exact hl
    · exact absurd (by rw [(h2 hl).1]) hne

/-! ### C11: an episode lasts at most `num_items` steps -/

theorem countTrue_lt_of_false (l : List Bool) (i : Nat) (hi : i < l.length) (h : l.getD i true = false) :
    Jx.countTrue l < l.length := by
  induction l generalizing i with
  | nil => simp at hi
  | cons b t ih =>
    cases i with
    | zero =>
      simp [List.getD_eq_getElem?_getD] at h
      subst h
      have := List.length_filter_le id t
      simp only [Jx.countTrue, List.filter_cons, id, Bool.false_eq_true, if_false, List.length_cons]; omega
    | succ i =>
      have h' : t.getD i true = false := by simpa [List.getD_eq_getElem?_getD] using h
      have hi' : i < t.length := by simpa using hi
      have := ih i hi' h'
      unfold Jx.countTrue at this ⊢
      cases b
      · simp only [List.filter_cons, id, Bool.false_eq_true, if_false, List.length_cons]; omega
      · simp only [List.filter_cons, id, if_true, List.length_cons]; omega

/-- in-spec action values -/
def inSpec (n : Nat) (a : Int) : Prop := 0 ≤ a ∧ a < n

/-- shape invariant of the horizon argument -/
def ShapeInv (n : Nat) (s : State) : Prop := s.packed.length = n ∧ s.weights.length = n

theorem step_nonlast_progress (n : Nat) (rnd : Rat → Rat) (dense : Bool) (s : State) (a : Int) (hs : ShapeInv n s)
    (ha : inSpec n a) (hnl : (step rnd dense s a).2.stepType ≠ .last) :
    Jx.countTrue (step rnd dense s a).1.packed = Jx.countTrue s.packed + 1 ∧
    Jx.countTrue (step rnd dense s a).1.packed < n := by
  obtain ⟨hp, hw⟩ := hs
  obtain ⟨a', rfl⟩ : ∃ a' : Nat, a = (a' : Int) := ⟨a.toNat, by have := ha.1; omega⟩
  have ha' : a' < s.weights.length := by have := ha.2; omega
  have hl : s.packed.length = s.weights.length := by omega
  refine ⟨progress rnd dense s a' hl ha' hnl, ?_⟩
  -- not LAST: the mask of the successor offers an item, which is therefore not packed
  have hlen' : (step rnd dense s a').1.packed.length = (step rnd dense s a').1.weights.length := by
    rw [step_packed_length, (step_weights rnd dense s a').1]; exact hl
  have hany : ((maskOf (step rnd dense s a').1).any id) = true := by
    cases hno : (maskOf (step rnd dense s a').1).any id with
    | true => rfl
    | false =>
      exfalso; apply hnl
      unfold step condLast termination transition at hno ⊢
      simp only [observe] at hno ⊢
      simp [hno]
  obtain ⟨b, hb, hbt⟩ := List.any_eq_true.mp hany
  obtain ⟨i, hi, rfl⟩ := List.getElem_of_mem hb
  have hmi : (maskOf (step rnd dense s a').1).getD i false = true := by
    simp only [id] at hbt
    simp [List.getD_eq_getElem?_getD, List.getElem?_eq_getElem hi, hbt]
  have hleg := (mask_iff_legal _ i hlen').1 hmi
  have := countTrue_lt_of_false _ i hleg.1 hleg.2.2.1
  rw [step_packed_length] at this
  omega

theorem step_shapeInv (n : Nat) (rnd : Rat → Rat) (dense : Bool) (s : State) (a : Int) (hs : ShapeInv n s) :
    ShapeInv n (step rnd dense s a).1 :=
  ⟨by rw [step_packed_length]; exact hs.1, by rw [(step_weights rnd dense s a).1]; exact hs.2⟩

/-- the horizon potential: `num_items − 1 − (items packed)` -/
def pot (n : Nat) (s : State) : Nat := n - 1 - Jx.countTrue s.packed

theorem bounded (n : Nat) (rnd : Rat → Rat) (dense : Bool) :
    Ep.Bounded (Ep.ofStep (step rnd dense) (fun s => (Jx.countTrue s.packed : Int))) (ShapeInv n) (inSpec n) (pot n) :=
  Ep.Bounded.of_step (fun s a hi _ => step_shapeInv n rnd dense s a hi) (fun s a hi ha hnl => by
    have := step_nonlast_progress n rnd dense s a hi ha hnl
    unfold pot; omega)

theorem countTrue_replicate_false (n : Nat) : Jx.countTrue (List.replicate n false) = 0 := by
  induction n with
  | zero => rfl
  | succ n ih => simp [Jx.countTrue, List.replicate_succ]

/-- from every reset state (any budget, any valid draw of `n ≥ 1` items), EVERY list of at least `n` in-spec actions —
legal or not — contains a LAST timestep, the first one at (1-based) index ≤ `n` -/
theorem ends_within_horizon (n : Nat) (hn : 0 < n) (rnd : Rat → Rat) (dense : Bool) (budget : Rat) (w v : List Rat)
    (h : validDraw n w v) (as : List Int) (hok : ∀ a ∈ as, inSpec n a) (hlen : n ≤ as.length) :
    ∃ k, Ep.firstLastTS ((Ep.rollout (step rnd dense) (reset budget w v).1 as).map (·.2)) = some k ∧ 0 < k ∧ k ≤ n := by
  have hi : ShapeInv n (reset budget w v).1 := ⟨by simp [reset, h.1], h.1⟩
  have hp : pot n (reset budget w v).1 + 1 = n := by
    simp only [pot, reset, countTrue_replicate_false]; omega
  obtain ⟨k, hk, h1, h2⟩ := (bounded n rnd dense).rollout_ends _ hi as hok (by omega)
  exact ⟨k, hk, h1, by omega⟩

/-! ### C12: the documented observation, at `reset` and after `step` -/

theorem reset_obs_documented (budget : Rat) (w v : List Rat) :
    (reset budget w v).2.obs = observeL2 (reset budget w v).1 ∧ (reset budget w v).2.stepType = .first :=
  ⟨observe_eq_observeL2 _ (by simp [reset]), rfl⟩

theorem step_obs_documented (rnd : Rat → Rat) (dense : Bool) (s : State) (a : Int)
    (hl : s.packed.length = s.weights.length) :
    (step rnd dense s a).2.obs = observeL2 (step rnd dense s a).1 := by
  rw [step_obs]
  exact observe_eq_observeL2 _ (by rw [step_packed_length, (step_weights rnd dense s a).1]; exact hl)

end Knapsack
