/-
Knapsack: refinement `step = stepL2` (C09), whole-episode return theorems (C08), feasibility along
mask-respecting play and maximality at completion (C06), generator certificate (C10).

Episodes are lists of actions played from a state until the first LAST timestep (`returnOf`, `endState`,
`statesAlong`); `LegalEpisode` = every action legal where it is played and LAST exactly at the last one;
`LegalPlay` = the same without the requirement that the episode is finished; `InvalidEnded` = legal
actions followed by one in-range illegal action (which ends the episode).
-/
import JumanjiModel.Env.Knapsack.Lemmas
import JumanjiModel.Env.Knapsack.Bounds
namespace Knapsack
open Jm

/-! ### shape and problem data are never touched -/

theorem step_packed_length (rnd : Rat → Rat) (dense : Bool) (s : State) (a : Int) :
    (step rnd dense s a).1.packed.length = s.packed.length := by
  simp only [step, update]; split <;> simp [Jx.setWD_length]

theorem step_wellShaped (rnd : Rat → Rat) (dense : Bool) (s : State) (a : Int) (h : WellShaped s) :
    WellShaped (step rnd dense s a).1 := by
  unfold WellShaped
  rw [step_packed_length, (step_weights rnd dense s a).1, (step_weights rnd dense s a).2]
  exact h

/-- the successor state and the step type do not depend on the reward function -/
theorem step_state_dense_irrel (rnd : Rat → Rat) (d1 d2 : Bool) (s : State) (a : Int) :
    (step rnd d1 s a).1 = (step rnd d2 s a).1 := by
  simp only [step]

theorem step_type_dense_irrel (rnd : Rat → Rat) (d1 d2 : Bool) (s : State) (a : Int) :
    (step rnd d1 s a).2.stepType = (step rnd d2 s a).2.stepType := by
  simp only [step, condLast]
  split <;> (split <;> rfl)

/-! ### the mask is the list of legal items -/

theorem maskOf_eq_legal (s : State) (h : s.packed.length = s.weights.length) :
    maskOf s = (List.range s.weights.length).map (fun i => decide (legal s i)) := by
  apply List.ext_getElem
  · unfold maskOf; simp; omega
  · intro i h1 h2
    have hi : i < s.weights.length := by simpa using h2
    have := mask_iff_legal s i h
    rw [List.getD_eq_getElem?_getD, List.getElem?_eq_getElem h1] at this
    simp only [Option.getD_some] at this
    simp only [List.getElem_map, List.getElem_range]
    by_cases hl : legal s i
    · simp [hl, this.2 hl]
    · have : (maskOf s)[i] ≠ true := fun hh => hl (this.1 hh)
      simp [hl, this]

theorem observe_eq_observeL2 (s : State) (h : s.packed.length = s.weights.length) :
    observe s = observeL2 s := by
  unfold observe observeL2; rw [maskOf_eq_legal s h]

theorem mask_any_eq_anyLegal (s : State) (h : s.packed.length = s.weights.length) :
    (maskOf s).any id = anyLegal s := by
  rw [maskOf_eq_legal s h]; unfold anyLegal; simp [List.any_map, Function.comp_def]

theorem anyLegal_iff (s : State) : anyLegal s = true ↔ ∃ i, legal s i := by
  unfold anyLegal
  simp only [List.any_eq_true, List.mem_range, decide_eq_true_eq]
  constructor
  · rintro ⟨i, _, h⟩; exact ⟨i, h⟩
  · rintro ⟨i, h⟩; exact ⟨i, h.2.1, h⟩

/-! ### C09: L1 = L2 -/

theorem update_eq_packL2 (rnd : Rat → Rat) (s : State) (a : Nat) (hp : a < s.packed.length)
    (ha : a < s.weights.length) : update rnd s a = packL2 rnd s a := by
  unfold update packL2; rw [Jx.setWD_nat _ _ hp, Jx.getWC_nat _ _ ha]

theorem step_eq_spec (rnd : Rat → Rat) (dense : Bool) (s : State) (a : Nat) (hs : WellShaped s)
    (ha : a < s.weights.length) : step rnd dense s a = stepL2 rnd dense s a := by
  obtain ⟨h1, h2⟩ := hs
  have hp : a < s.packed.length := by omega
  have hvl : a < s.values.length := by omega
  by_cases hl : legal s a
  · have hv := (isValid_iff_legal s a h1 ha).2 hl
    have hu := update_eq_packL2 rnd s a hp ha
    have hsh : (packL2 rnd s a).packed.length = (packL2 rnd s a).weights.length := by
      simp [packL2, h1]
    have ho := observe_eq_observeL2 _ hsh
    have hm : (observeL2 (packL2 rnd s a)).mask.any id = anyLegal (packL2 rnd s a) := by
      rw [← ho]; exact mask_any_eq_anyLegal _ hsh
    unfold step stepL2
    simp only [hv, if_true, hu, hl, ho, hm, Bool.not_true, Bool.or_false, reward,
      Jx.getWC_nat _ _ hvl]
    cases hany : anyLegal (packL2 rnd s a) <;> cases dense <;>
      simp [condLast, packedValue]
  · have hv : isValid s a = false := by
      cases hh : isValid s a
      · rfl
      · exact absurd ((isValid_iff_legal s a h1 ha).1 hh) hl
    unfold step stepL2
    simp only [hv, hl, if_false, Bool.false_eq_true, observe_eq_observeL2 s h1, reward]
    cases dense <;> simp [condLast]

theorem stepL2_last_iff (rnd : Rat → Rat) (dense : Bool) (s : State) (a : Nat) :
    (stepL2 rnd dense s a).2.stepType = .last ↔
      (¬ legal s a ∨ ∀ i, ¬ legal (stepL2 rnd dense s a).1 i) := by
  unfold stepL2
  by_cases hl : legal s a
  · simp only [hl, if_true]
    cases hany : anyLegal (packL2 rnd s a)
    · have : ∀ i, ¬ legal (packL2 rnd s a) i := by
        intro i hi
        have := (anyLegal_iff _).2 ⟨i, hi⟩
        rw [hany] at this; exact Bool.noConfusion this
      simp [termination, this]
    · obtain ⟨i, hi⟩ := (anyLegal_iff _).1 hany
      simp only [if_true, transition, not_true, false_or]
      constructor
      · intro h; cases h
      · intro h; exact absurd hi (h i)
  · simp [hl, termination]

/-- the episode ends exactly on an invalid action or when no item fits any more -/
theorem last_iff (rnd : Rat → Rat) (dense : Bool) (s : State) (a : Nat) (hs : WellShaped s)
    (ha : a < s.weights.length) :
    (step rnd dense s a).2.stepType = .last ↔
      (¬ legal s a ∨ ∀ i, ¬ legal (step rnd dense s a).1 i) := by
  rw [step_eq_spec rnd dense s a hs ha]; exact stepL2_last_iff rnd dense s a

/-- what a legal step does, field by field -/
theorem step_legal_spec (rnd : Rat → Rat) (dense : Bool) (s : State) (a : Nat) (hs : WellShaped s)
    (hl : legal s a) :
    let s' := (step rnd dense s a).1
    s'.weights = s.weights ∧ s'.values = s.values ∧ s'.packed.length = s.packed.length ∧
    (∀ i, s'.packed.getD i true = if i = a then true else s.packed.getD i true) ∧
    s'.remaining = rnd (s.remaining - s.weights.getD a 0) := by
  have ha := hl.2.1
  rw [step_eq_spec rnd dense s a hs ha]
  unfold stepL2
  simp only [hl, if_true]
  have key : ∀ i, (packL2 rnd s a).packed.getD i true = if i = a then true else s.packed.getD i true := by
    intro i
    unfold packL2
    simp only [List.getD_eq_getElem?_getD, List.getElem?_set]
    by_cases hia : i = a
    · subst hia; simp [hl.1]
    · have : ¬ a = i := fun h => hia h.symm
      simp [hia, this]
  split <;> exact ⟨rfl, rfl, by simp [packL2], key, rfl⟩

/-! ### episodes -/

/-- sum of the rewards of the episode `as` played from `s` (up to and including the first LAST) -/
def returnOf (rnd : Rat → Rat) (dense : Bool) : State → List Nat → Rat
  | _, [] => 0
  | s, a :: as =>
    (step rnd dense s a).2.reward.sum +
      (if (step rnd dense s a).2.stepType = .last then 0
       else returnOf rnd dense (step rnd dense s a).1 as)

/-- the state in which that episode ends -/
def endState (rnd : Rat → Rat) (dense : Bool) : State → List Nat → State
  | s, [] => s
  | s, a :: as =>
    if (step rnd dense s a).2.stepType = .last then (step rnd dense s a).1
    else endState rnd dense (step rnd dense s a).1 as

/-- every state the episode visits (the start state first) -/
def statesAlong (rnd : Rat → Rat) (dense : Bool) : State → List Nat → List State
  | s, [] => [s]
  | s, a :: as =>
    s :: (if (step rnd dense s a).2.stepType = .last then [(step rnd dense s a).1]
          else statesAlong rnd dense (step rnd dense s a).1 as)

/-- every action is legal (mask-allowed) where it is played; the episode need not be finished -/
def LegalPlay (rnd : Rat → Rat) (dense : Bool) : State → List Nat → Prop
  | _, [] => True
  | s, a :: as =>
    legal s a ∧
      (if (step rnd dense s a).2.stepType = .last then True
       else LegalPlay rnd dense (step rnd dense s a).1 as)

/-- a complete episode of legal actions: LAST exactly at the last action -/
def LegalEpisode (rnd : Rat → Rat) (dense : Bool) : State → List Nat → Prop
  | _, [] => False
  | s, a :: as =>
    legal s a ∧
      (if (step rnd dense s a).2.stepType = .last then as = []
       else LegalEpisode rnd dense (step rnd dense s a).1 as)

/-- legal actions, none of which ends the episode, followed by one in-range ILLEGAL action -/
def InvalidEnded (rnd : Rat → Rat) (dense : Bool) : State → List Nat → Prop
  | _, [] => False
  | s, a :: as =>
    a < s.weights.length ∧
      (if legal s a then (step rnd dense s a).2.stepType ≠ .last ∧
          InvalidEnded rnd dense (step rnd dense s a).1 as
       else as = [])

instance decLegalPlay (rnd : Rat → Rat) (dense : Bool) :
    (s : State) → (as : List Nat) → Decidable (LegalPlay rnd dense s as)
  | _, [] => isTrue trivial
  | s, a :: as =>
    have := decLegalPlay rnd dense (step rnd dense s a).1 as
    inferInstanceAs (Decidable (legal s a ∧
      (if (step rnd dense s a).2.stepType = .last then True
       else LegalPlay rnd dense (step rnd dense s a).1 as)))

instance decLegalEpisode (rnd : Rat → Rat) (dense : Bool) :
    (s : State) → (as : List Nat) → Decidable (LegalEpisode rnd dense s as)
  | _, [] => isFalse (fun h => h)
  | s, a :: as =>
    have := decLegalEpisode rnd dense (step rnd dense s a).1 as
    inferInstanceAs (Decidable (legal s a ∧
      (if (step rnd dense s a).2.stepType = .last then as = []
       else LegalEpisode rnd dense (step rnd dense s a).1 as)))

instance decInvalidEnded (rnd : Rat → Rat) (dense : Bool) :
    (s : State) → (as : List Nat) → Decidable (InvalidEnded rnd dense s as)
  | _, [] => isFalse (fun h => h)
  | s, a :: as =>
    have := decInvalidEnded rnd dense (step rnd dense s a).1 as
    inferInstanceAs (Decidable (a < s.weights.length ∧
      (if legal s a then (step rnd dense s a).2.stepType ≠ .last ∧
          InvalidEnded rnd dense (step rnd dense s a).1 as
       else as = [])))

theorem LegalEpisode.legalPlay {rnd : Rat → Rat} {dense : Bool} :
    ∀ {s : State} {as : List Nat}, LegalEpisode rnd dense s as → LegalPlay rnd dense s as
  | _, [], h => h.elim
  | s, a :: as, h => by
    refine ⟨h.1, ?_⟩
    have h2 := h.2
    split
    · trivial
    · next hne => rw [if_neg hne] at h2; exact h2.legalPlay

/-- trajectories do not depend on the reward function -/
theorem endState_dense_irrel (rnd : Rat → Rat) (d1 d2 : Bool) :
    ∀ (s : State) (as : List Nat), endState rnd d1 s as = endState rnd d2 s as
  | _, [] => rfl
  | s, a :: as => by
    simp only [endState]
    rw [step_type_dense_irrel rnd d1 d2 s a, step_state_dense_irrel rnd d1 d2 s a]
    split
    · rfl
    · exact endState_dense_irrel rnd d1 d2 _ as

theorem legalEpisode_dense_irrel (rnd : Rat → Rat) (d1 d2 : Bool) :
    ∀ (s : State) (as : List Nat), LegalEpisode rnd d1 s as → LegalEpisode rnd d2 s as
  | _, [], h => h
  | s, a :: as, h => by
    refine ⟨h.1, ?_⟩
    have h2 := h.2
    rw [step_type_dense_irrel rnd d1 d2 s a, step_state_dense_irrel rnd d1 d2 s a] at h2
    split
    · next hl => rw [if_pos hl] at h2; exact h2
    · next hne => rw [if_neg hne] at h2; exact legalEpisode_dense_irrel rnd d1 d2 _ as h2

theorem invalidEnded_dense_irrel (rnd : Rat → Rat) (d1 d2 : Bool) :
    ∀ (s : State) (as : List Nat), InvalidEnded rnd d1 s as → InvalidEnded rnd d2 s as
  | _, [], h => h
  | s, a :: as, h => by
    refine ⟨h.1, ?_⟩
    have h2 := h.2
    rw [step_type_dense_irrel rnd d1 d2 s a, step_state_dense_irrel rnd d1 d2 s a] at h2
    split
    · next hl => rw [if_pos hl] at h2; exact ⟨h2.1, invalidEnded_dense_irrel rnd d1 d2 _ as h2.2⟩
    · next hne => rw [if_neg hne] at h2; exact h2

/-! ### C08: dense return -/

/-- ANY sequence of in-range actions (legal or not, complete or not): the dense rewards add up to the gain in
packed value recomputed from `packed_items` and `values` -/
theorem dense_return_any (rnd : Rat → Rat) :
    ∀ (s : State) (as : List Nat), WellShaped s → (∀ a ∈ as, a < s.weights.length) →
      returnOf rnd true s as = packedValue (endState rnd true s as) - packedValue s
  | s, [], _, _ => by simp only [returnOf, endState]; grind
  | s, a :: as, hs, hr => by
    have ha : a < s.weights.length := hr a (by simp)
    have ht := dense_telescopes rnd s a hs ha
    simp only [returnOf, endState]
    split
    · rw [ht]; grind
    · have hs' := step_wellShaped rnd true s a hs
      have hr' : ∀ b ∈ as, b < (step rnd true s a).1.weights.length := by
        intro b hb; rw [(step_weights rnd true s a).1]; exact hr b (by simp [hb])
      rw [dense_return_any rnd _ as hs' hr', ht]; grind

theorem legalPlay_inrange (rnd : Rat → Rat) (dense : Bool) :
    ∀ (s : State) (as : List Nat), LegalEpisode rnd dense s as → ∀ a ∈ as, a < s.weights.length
  | _, [], h => h.elim
  | s, a :: as, h => by
    intro b hb
    rcases List.mem_cons.1 hb with rfl | hb
    · exact h.1.2.1
    · have h2 := h.2
      by_cases hl : (step rnd dense s a).2.stepType = .last
      · rw [if_pos hl] at h2; subst h2; simp at hb
      · rw [if_neg hl] at h2
        have := legalPlay_inrange rnd dense _ as h2 b hb
        rwa [(step_weights rnd dense s a).1] at this

theorem invalidEnded_inrange (rnd : Rat → Rat) (dense : Bool) :
    ∀ (s : State) (as : List Nat), InvalidEnded rnd dense s as → ∀ a ∈ as, a < s.weights.length
  | _, [], h => h.elim
  | s, a :: as, h => by
    intro b hb
    rcases List.mem_cons.1 hb with rfl | hb
    · exact h.1
    · have h2 := h.2
      by_cases hl : legal s a
      · rw [if_pos hl] at h2
        have := invalidEnded_inrange rnd dense _ as h2.2 b hb
        rwa [(step_weights rnd dense s a).1] at this
      · rw [if_neg hl] at h2; subst h2; simp at hb

/-! ### C08: sparse return -/

theorem sparse_reward_mid (rnd : Rat → Rat) (s : State) (a : Nat)
    (h : (step rnd false s a).2.stepType ≠ .last) : (step rnd false s a).2.reward.sum = 0 := by
  rw [sparse_reward]; simp [h, Rat.add_zero]

theorem sparse_reward_last_legal (rnd : Rat → Rat) (s : State) (a : Nat) (hs : WellShaped s)
    (hl : legal s a) (h : (step rnd false s a).2.stepType = .last) :
    (step rnd false s a).2.reward.sum = packedValue (step rnd false s a).1 := by
  have hv := (isValid_iff_legal s a hs.1 hl.2.1).2 hl
  rw [sparse_reward]; simp [h, hv, Rat.add_zero]

theorem sparse_reward_illegal (rnd : Rat → Rat) (s : State) (a : Nat) (hs : WellShaped s)
    (ha : a < s.weights.length) (hl : ¬ legal s a) : (step rnd false s a).2.reward.sum = 0 := by
  have := (illegal_step rnd false s a hs.1 ha hl).2.2
  rw [this]; simp [Rat.add_zero]

/-- complete legal episode: the sparse rewards add up to the packed value of the final state -/
theorem sparse_return (rnd : Rat → Rat) :
    ∀ (s : State) (as : List Nat), WellShaped s → LegalEpisode rnd false s as →
      returnOf rnd false s as = packedValue (endState rnd false s as)
  | _, [], _, h => h.elim
  | s, a :: as, hs, h => by
    simp only [returnOf, endState]
    have h2 := h.2
    split
    · next hl => rw [sparse_reward_last_legal rnd s a hs h.1 hl]; grind
    · next hne =>
      rw [if_neg hne] at h2
      rw [sparse_reward_mid rnd s a hne, sparse_return rnd _ as (step_wellShaped rnd false s a hs) h2]
      grind

/-- an episode ended by an invalid action returns 0 under the sparse reward -/
theorem sparse_return_invalid (rnd : Rat → Rat) :
    ∀ (s : State) (as : List Nat), WellShaped s → InvalidEnded rnd false s as →
      returnOf rnd false s as = 0
  | _, [], _, h => h.elim
  | s, a :: as, hs, h => by
    simp only [returnOf]
    have h2 := h.2
    by_cases hl : legal s a
    · rw [if_pos hl] at h2
      rw [if_neg h2.1, sparse_reward_mid rnd s a h2.1,
        sparse_return_invalid rnd _ as (step_wellShaped rnd false s a hs) h2.2]
      grind
    · rw [sparse_reward_illegal rnd s a hs h.1 hl]
      have := (illegal_step rnd false s a hs.1 h.1 hl).2.1
      rw [if_pos this]; grind

/-- an episode ended by an invalid action ends in the state reached by the legal actions before it -/
theorem endState_invalid_packed (rnd : Rat → Rat) (dense : Bool) (s : State) (a : Nat)
    (hs : WellShaped s) (ha : a < s.weights.length) (hl : ¬ legal s a) :
    endState rnd dense s [a] = s := by
  simp only [endState]
  have h := illegal_step rnd dense s a hs.1 ha hl
  rw [if_pos h.2.1, h.1]

/-! ### C06 -/

theorem dot_replicate_false (n : Nat) : ∀ (vs : List Rat), dot (List.replicate n false) vs = 0 := by
  induction n with
  | zero => intro vs; simp [dot]
  | succ n ih =>
    intro vs
    cases vs with
    | nil => simp [dot]
    | cons v vs =>
      have := ih vs
      simp only [dot, List.replicate_succ, List.zipWith_cons_cons, List.sum_cons] at this ⊢
      rw [this]; simp [Rat.add_zero]

theorem feasible_withinBudget (b : Rat) (s : State) (h : Feasible b s) : WithinBudget b s := by
  obtain ⟨_, _, h3, h4⟩ := h
  unfold WithinBudget
  rw [h4] at h3
  grind

theorem feasible_wellShaped (b : Rat) (s : State) (h : Feasible b s) : WellShaped s := ⟨h.1, h.2.1⟩

theorem generate_feasible (n : Nat) (b : Rat) (w v : List Rat) (hb : 0 ≤ b) (h : validDraw n w v) :
    Feasible b (generate n b w v) := by
  unfold Feasible generate packedWeight
  simp only [List.length_replicate, dot_replicate_false]
  exact ⟨h.1.symm, by rw [h.1, h.2.1], hb, by grind⟩

/-- every state of a mask-respecting play (exact arithmetic) is feasible -/
theorem feasible_along (b : Rat) (dense : Bool) :
    ∀ (s : State) (as : List Nat), Feasible b s → LegalPlay id dense s as →
      ∀ s' ∈ statesAlong id dense s as, Feasible b s'
  | s, [], hf, _ => by intro s' hs'; simp only [statesAlong, List.mem_singleton] at hs'; subst hs'; exact hf
  | s, a :: as, hf, hp => by
    intro s' hs'
    have hf' := step_feasible b dense s a hf hp.1
    simp only [statesAlong, List.mem_cons] at hs'
    rcases hs' with rfl | hs'
    · exact hf
    · have h2 := hp.2
      by_cases hl : (step id dense s a).2.stepType = .last
      · rw [if_pos hl] at hs'; simp only [List.mem_singleton] at hs'; subst hs'; exact hf'
      · rw [if_neg hl] at hs' h2
        exact feasible_along b dense _ as hf' h2 s' hs'

theorem endState_mem_statesAlong (rnd : Rat → Rat) (dense : Bool) :
    ∀ (s : State) (as : List Nat), endState rnd dense s as ∈ statesAlong rnd dense s as
  | s, [] => by simp [endState, statesAlong]
  | s, a :: as => by
    simp only [endState, statesAlong]
    split
    · simp
    · exact List.mem_cons_of_mem _ (endState_mem_statesAlong rnd dense _ as)

/-- a complete legal episode ends in a state in which no item is legal -/
theorem complete_no_legal (rnd : Rat → Rat) (dense : Bool) :
    ∀ (s : State) (as : List Nat), WellShaped s → LegalEpisode rnd dense s as →
      ∀ i, ¬ legal (endState rnd dense s as) i
  | _, [], _, h => h.elim
  | s, a :: as, hs, h => by
    simp only [endState]
    have h2 := h.2
    split
    · next hl =>
      rcases (last_iff rnd dense s a hs h.1.2.1).1 hl with hn | hn
      · exact absurd h.1 hn
      · exact hn
    · next hne =>
      rw [if_neg hne] at h2
      exact complete_no_legal rnd dense _ as (step_wellShaped rnd dense s a hs) h2

/-- no legal item + feasible ⇒ the packed set is a maximal feasible set (from raw arrays) -/
theorem maximal_of_no_legal (b : Rat) (s : State) (hf : Feasible b s) (hn : ∀ i, ¬ legal s i) :
    Maximal b s := by
  intro i hi hp
  obtain ⟨h1, _, _, h4⟩ := hf
  have := hn i
  unfold legal at this
  have hnle : ¬ s.weights.getD i 0 ≤ s.remaining := fun hle => this ⟨by omega, hi, hp, hle⟩
  rw [← h4]
  exact Rat.not_le.1 hnle

/-! ### C10 -/

theorem inUnit_iff (xs : List Rat) : inUnit xs = true ↔ ∀ x ∈ xs, 0 ≤ x ∧ x ≤ 1 := by
  unfold inUnit; simp [List.all_eq_true]

theorem generate_instanceOK (n : Nat) (b : Rat) (w v : List Rat) (h : validDraw n w v) :
    instanceOK n b (generate n b w v) = true := by
  obtain ⟨h1, h2, h3, h4⟩ := h
  unfold instanceOK generate
  simp [h1, h2, (inUnit_iff w).2 h3, (inUnit_iff v).2 h4]

theorem instanceOK_spec (n : Nat) (b : Rat) (s : State) (h : instanceOK n b s = true) :
    s.weights.length = n ∧ s.values.length = n ∧ s.packed = List.replicate n false ∧
    s.remaining = b ∧ UnitItems s := by
  unfold instanceOK at h
  simp only [Bool.and_eq_true, decide_eq_true_eq] at h
  obtain ⟨⟨⟨⟨⟨h1, h2⟩, h3⟩, h4⟩, h5⟩, h6⟩ := h
  exact ⟨h1, h2, h3, h4, (inUnit_iff _).1 h5, (inUnit_iff _).1 h6⟩

theorem instanceOK_feasible (n : Nat) (b : Rat) (s : State) (hb : 0 ≤ b) (h : instanceOK n b s = true) :
    Feasible b s ∧ packedValue s = 0 ∧ packedWeight s = 0 := by
  obtain ⟨h1, h2, h3, h4, _⟩ := instanceOK_spec n b s h
  unfold Feasible packedValue packedWeight
  rw [h3, dot_replicate_false, dot_replicate_false, h4]
  refine ⟨⟨by simp [h1], by rw [h1, h2], hb, by grind⟩, rfl, rfl⟩

/-! ### the statements the property file quotes -/

theorem instanceOK_wellShaped (n : Nat) (b : Rat) (s : State) (h : instanceOK n b s = true) :
    WellShaped s := by
  obtain ⟨h1, h2, h3, _⟩ := instanceOK_spec n b s h
  exact ⟨by rw [h3]; simp [h1], by rw [h1, h2]⟩

theorem instanceOK_value0 (n : Nat) (b : Rat) (s : State) (h : instanceOK n b s = true) :
    packedValue s = 0 := by
  obtain ⟨_, _, h3, _⟩ := instanceOK_spec n b s h
  unfold packedValue; rw [h3, dot_replicate_false]

/-- from an instance with nothing packed, a complete legal episode: dense return = packed value of the
final state -/
theorem dense_return (rnd : Rat → Rat) (n : Nat) (b : Rat) (s : State) (as : List Nat)
    (h0 : instanceOK n b s = true) (hep : LegalEpisode rnd true s as) :
    returnOf rnd true s as = packedValue (endState rnd true s as) := by
  rw [dense_return_any rnd s as (instanceOK_wellShaped n b s h0) (legalPlay_inrange rnd true s as hep),
    instanceOK_value0 n b s h0]
  grind

theorem dense_eq_sparse (rnd : Rat → Rat) (n : Nat) (b : Rat) (s : State) (as : List Nat) (dense : Bool)
    (h0 : instanceOK n b s = true) (hep : LegalEpisode rnd dense s as) :
    returnOf rnd true s as = packedValue (endState rnd dense s as) ∧
    returnOf rnd false s as = packedValue (endState rnd dense s as) := by
  constructor
  · rw [dense_return rnd n b s as h0 (legalEpisode_dense_irrel rnd dense true s as hep),
      endState_dense_irrel rnd true dense]
  · rw [sparse_return rnd s as (instanceOK_wellShaped n b s h0)
      (legalEpisode_dense_irrel rnd dense false s as hep), endState_dense_irrel rnd false dense]

theorem episode_return (rnd : Rat → Rat) (n : Nat) (b : Rat) (s : State) (as : List Nat) (dense : Bool)
    (h0 : instanceOK n b s = true) (hep : LegalEpisode rnd dense s as) :
    returnOf rnd dense s as = packedValue (endState rnd dense s as) := by
  cases dense
  · exact (dense_eq_sparse rnd n b s as false h0 hep).2
  · exact (dense_eq_sparse rnd n b s as true h0 hep).1

/-- episode ended by an invalid action, dense reward: the values of the items packed before it are kept -/
theorem dense_return_invalid (rnd : Rat → Rat) (n : Nat) (b : Rat) (s : State) (as : List Nat)
    (h0 : instanceOK n b s = true) (hep : InvalidEnded rnd true s as) :
    returnOf rnd true s as = packedValue (endState rnd true s as) := by
  rw [dense_return_any rnd s as (instanceOK_wellShaped n b s h0) (invalidEnded_inrange rnd true s as hep),
    instanceOK_value0 n b s h0]
  grind

theorem complete_is_solution (b : Rat) (dense : Bool) (s : State) (as : List Nat) (hf : Feasible b s)
    (hep : LegalEpisode id dense s as) :
    Feasible b (endState id dense s as) ∧ WithinBudget b (endState id dense s as) ∧
    Maximal b (endState id dense s as) ∧ ∀ i, ¬ legal (endState id dense s as) i := by
  have hfe := feasible_along b dense s as hf hep.legalPlay _ (endState_mem_statesAlong id dense s as)
  have hn := complete_no_legal id dense s as (feasible_wellShaped b s hf) hep
  exact ⟨hfe, feasible_withinBudget b _ hfe, maximal_of_no_legal b _ hfe hn, hn⟩

/-! ### audit r4 #2: the float32 budget along a whole play -/

theorem remaining_nonneg_along (rnd : Rat → Rat) (hmono : ∀ x y, x ≤ y → rnd x ≤ rnd y) (h0 : rnd 0 = 0)
    (dense : Bool) : ∀ (as : List Nat) (s : State), 0 ≤ s.remaining → LegalPlay rnd dense s as →
    ∀ s' ∈ statesAlong rnd dense s as, 0 ≤ s'.remaining := by
  intro as
  induction as with
  | nil => intro s hr _ s' hs'; simp [statesAlong] at hs'; subst hs'; exact hr
  | cons a as ih =>
    intro s hr hp s' hs'
    obtain ⟨hl, hrest⟩ := hp
    have hn := remaining_nonneg rnd hmono h0 dense s a hr hl
    simp only [statesAlong, List.mem_cons] at hs'
    rcases hs' with rfl | hs'
    · exact hr
    · by_cases hlast : (step rnd dense s a).2.stepType = .last
      · simp [hlast] at hs'; subst hs'; exact hn
      · simp only [hlast, if_false] at hs' hrest
        exact ih _ hn hrest s' hs'

end Knapsack
