import JumanjiModel.Env.Knapsack.Model
import JumanjiModel.Prim.Lemmas
namespace Knapsack
open Jm

theorem maskOf_getD (s : State) (a : Nat) (hl : s.packed.length = s.weights.length) (ha : a < s.weights.length) :
    (maskOf s).getD a false = (!(s.packed.getD a true) && decide (s.weights.getD a 0 ≤ s.remaining)) := by
  unfold maskOf
  have hp : a < s.packed.length := by omega
  simp [List.getD_eq_getElem?_getD, List.getElem?_zipWith, List.getElem?_eq_getElem hp, List.getElem?_eq_getElem ha]

theorem mask_iff_legal (s : State) (a : Nat) (hl : s.packed.length = s.weights.length) :
    (maskOf s).getD a false = true ↔ legal s a := by
  by_cases ha : a < s.weights.length
  · rw [maskOf_getD s a hl ha]
    unfold legal
    have hp : a < s.packed.length := by omega
    simp [ha, hp]
  · have : (maskOf s).length ≤ a := by unfold maskOf; simp; omega
    unfold legal
    simp [List.getD_eq_getElem?_getD, List.getElem?_eq_none this]
    omega

theorem isValid_iff_legal (s : State) (a : Nat) (hl : s.packed.length = s.weights.length)
    (ha : a < s.weights.length) : isValid s a = true ↔ legal s a := by
  have hp : a < s.packed.length := by omega
  unfold isValid legal
  rw [Jx.getWC_nat _ _ ha, Jx.getWC_nat _ _ hp]
  simp [ha, hp, List.getD_eq_getElem?_getD]
  exact And.comm

theorem illegal_step (rnd : Rat → Rat) (dense : Bool) (s : State) (a : Nat)
    (hl : s.packed.length = s.weights.length) (ha : a < s.weights.length) (h : ¬ legal s a) :
    (step rnd dense s a).1 = s ∧ (step rnd dense s a).2.stepType = .last ∧
    (step rnd dense s a).2.reward = [0] := by
  have hv : isValid s a = false := by
    cases hh : isValid s a
    · rfl
    · exact absurd ((isValid_iff_legal s a hl ha).1 hh) h
  unfold step
  simp [hv, condLast, termination, reward]

theorem obs_faithful (rnd : Rat → Rat) (dense : Bool) (s : State) (a : Int) :
    (step rnd dense s a).2.obs = observe (step rnd dense s a).1 := by
  unfold step condLast
  simp only []
  split <;> split <;> rfl

/-! dot product and `set` -/

theorem dot_set_true (ps : List Bool) (vs : List Rat) (a : Nat) (ha : a < ps.length) (hv : a < vs.length)
    (hp : ps.getD a true = false) : dot (ps.set a true) vs = dot ps vs + vs.getD a 0 := by
  induction ps generalizing a vs with
  | nil => simp at ha
  | cons p ps ih =>
    cases vs with
    | nil => simp at hv
    | cons v vs =>
      cases a with
      | zero =>
        simp [List.getD_eq_getElem?_getD] at hp
        subst hp
        simp [dot, List.getD_eq_getElem?_getD, Rat.add_comm, Rat.zero_add]
      | succ a =>
        simp at ha hv
        have hp' : ps.getD a true = false := by simpa [List.getD_eq_getElem?_getD] using hp
        have := ih vs a ha hv hp'
        simp [dot, List.getD_eq_getElem?_getD] at this ⊢
        rw [this, Rat.add_assoc]

theorem step_valid (rnd : Rat → Rat) (dense : Bool) (s : State) (a : Nat) (hv : isValid s a = true) :
    (step rnd dense s a).1 = update rnd s a := by
  unfold step; simp [hv]

theorem step_feasible (b : Rat) (dense : Bool) (s : State) (a : Nat)
    (hf : Feasible b s) (hl : legal s a) : Feasible b (step id dense s a).1 := by
  obtain ⟨h1, h2, h3, h4⟩ := hf
  obtain ⟨l1, l2, l3, l4⟩ := hl
  have hv : isValid s a = true := (isValid_iff_legal s a h1 l2).2 ⟨l1, l2, l3, l4⟩
  rw [step_valid id dense s a hv]
  unfold update Feasible packedWeight
  simp only [id]
  rw [Jx.setWD_nat _ _ l1, Jx.getWC_nat _ _ l2]
  refine ⟨by simpa using h1, h2, ?_, ?_⟩
  · have : s.weights.getD a 0 ≤ s.remaining := l4
    exact (Rat.le_iff_sub_nonneg _ _).1 this
  · rw [dot_set_true s.packed s.weights a l1 l2 l3, h4]
    unfold packedWeight
    rw [Rat.sub_eq_add_neg, Rat.sub_eq_add_neg, Rat.sub_eq_add_neg, Rat.neg_add, Rat.add_assoc]

theorem remaining_nonneg (rnd : Rat → Rat) (hmono : ∀ x y, x ≤ y → rnd x ≤ rnd y)
    (h0 : rnd 0 = 0) (dense : Bool) (s : State) (a : Nat) (hr : 0 ≤ s.remaining) (hl : legal s a) :
    0 ≤ (step rnd dense s a).1.remaining := by
  obtain ⟨l1, l2, l3, l4⟩ := hl
  by_cases hv : isValid s a = true
  · rw [step_valid rnd dense s a hv]
    unfold update; simp only []
    rw [Jx.getWC_nat _ _ l2]
    have := hmono 0 _ ((Rat.le_iff_sub_nonneg _ _).1 l4)
    rw [h0] at this
    exact this
  · have : (step rnd dense s a).1 = s := by unfold step; simp [hv]
    rw [this]; exact hr

theorem dense_telescopes (rnd : Rat → Rat) (s : State) (a : Nat)
    (hf : s.packed.length = s.weights.length ∧ s.values.length = s.weights.length)
    (ha : a < s.weights.length) :
    packedValue (step rnd true s a).1 = packedValue s + (step rnd true s a).2.reward.sum := by
  obtain ⟨h1, h2⟩ := hf
  have hp : a < s.packed.length := by omega
  have hvl : a < s.values.length := by omega
  by_cases hv : isValid s a = true
  · have hleg := (isValid_iff_legal s a h1 ha).1 hv
    have e1 : (step rnd true s a).1 = update rnd s a := step_valid rnd true s a hv
    have e2 : (step rnd true s a).2.reward = [Jx.getWC s.values 0 a] := by
      unfold step condLast termination transition reward
      simp [hv]; split <;> rfl
    rw [e1, e2]
    unfold update packedValue; simp only []
    rw [Jx.setWD_nat _ _ hp, Jx.getWC_nat _ _ hvl, dot_set_true s.packed s.values a hp hvl hleg.2.2.1]
    simp [Rat.add_zero]
  · have e1 : (step rnd true s a).1 = s := by unfold step; simp [hv]
    have e2 : (step rnd true s a).2.reward = [0] := by
      unfold step condLast termination transition reward
      simp [hv]
    rw [e1, e2]; simp [Rat.add_zero]

theorem sparse_reward (rnd : Rat → Rat) (s : State) (a : Nat) :
    (step rnd false s a).2.reward =
      [if (step rnd false s a).2.stepType = .last ∧ isValid s a = true
       then packedValue (step rnd false s a).1 else 0] := by
  unfold step condLast termination transition reward packedValue
  simp only []
  by_cases hv : isValid s a = true
  · simp [hv]
    split <;> simp_all
  · simp [hv]

theorem countTrue_set (ps : List Bool) (a : Nat) (ha : a < ps.length) (hp : ps.getD a true = false) :
    Jx.countTrue (ps.set a true) = Jx.countTrue ps + 1 := by
  induction ps generalizing a with
  | nil => simp at ha
  | cons p ps ih =>
    cases a with
    | zero =>
      simp [List.getD_eq_getElem?_getD] at hp
      subst hp
      simp [Jx.countTrue]
    | succ a =>
      simp at ha
      have hp' : ps.getD a true = false := by simpa [List.getD_eq_getElem?_getD] using hp
      have := ih a ha hp'
      unfold Jx.countTrue at this ⊢
      cases p <;> simp [List.filter_cons] at this ⊢ <;> omega

theorem progress (rnd : Rat → Rat) (dense : Bool) (s : State) (a : Nat)
    (hl : s.packed.length = s.weights.length) (ha : a < s.weights.length)
    (h : (step rnd dense s a).2.stepType ≠ .last) :
    Jx.countTrue (step rnd dense s a).1.packed = Jx.countTrue s.packed + 1 := by
  have hp : a < s.packed.length := by omega
  by_cases hv : isValid s a = true
  · have hleg := (isValid_iff_legal s a hl ha).1 hv
    rw [step_valid rnd dense s a hv]
    unfold update; simp only []
    rw [Jx.setWD_nat _ _ hp]
    exact countTrue_set _ _ hp hleg.2.2.1
  · exfalso; apply h
    unfold step condLast termination transition
    simp [hv]

end Knapsack
