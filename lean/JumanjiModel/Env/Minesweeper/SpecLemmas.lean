/-
Minesweeper — wave 3 (statement audit of Props/Env/Minesweeper.lean + C01 spec membership).

* the declared specs as `Sp` values (`obsSpec cfg`, `actionSpec cfg`), the model observation as spec-level arrays (`toNValue`)
  and membership of what `reset` / `step` emit (C01);
* the environment's own reaction to an action, stated about `step` (C04);
* whole episodes: the structural horizon `cells − mines` (C11), `Consistent` and the mine table along every play from a
  generated instance (C07), the reset observation (C12).
-/
import JumanjiModel.Env.Minesweeper.BoundsLemmas
import JumanjiModel.Env.Minesweeper.Episode
import JumanjiModel.Env.SpecValidW3
namespace Minesweeper
open Jm Jx Sp PzS PzS3 PzB

/-! ### the declared specs (env.py `observation_spec`, `action_spec`) -/

def cells (cfg : Cfg) : Nat := cfg.numRows * cfg.numCols

/-- `observation_spec`: `board` BoundedArray((R, C), int32, −1, 8), `action_mask` BoundedArray((R, C), bool),
`num_mines` BoundedArray((), int32, 0, R·C − 1), `step_count` BoundedArray((), int32, 0, R·C − num_mines) -/
def obsSpec (cfg : Cfg) : Sp.Nested :=
  [("board", .bounded [cfg.numRows, cfg.numCols] .int32 "board" [] [((-1 : Int) : Rat)] [] [((8 : Int) : Rat)]),
   ("action_mask", .bounded [cfg.numRows, cfg.numCols] .bool "action_mask" [] [0] [] [1]),
   ("num_mines", .bounded [] .int32 "num_mines" [] [((0 : Int) : Rat)] [] [((((cells cfg : Nat) : Int) - 1 : Int) : Rat)]),
   ("step_count", .bounded [] .int32 "step_count" [] [((0 : Int) : Rat)] []
      [((((cells cfg : Nat) : Int) - (cfg.numMines : Int) : Int) : Rat)])]

/-- `action_spec`: MultiDiscreteArray([R, C], int32) -/
def actionSpec (cfg : Cfg) : Leaf := .multiDiscrete [2] [cfg.numRows, cfg.numCols] .int32 "action"

/-- a model observation as the arrays the implementation emits -/
def toNValue (o : Obs) : NValue :=
  [("board", ⟨gridShape o.board, .int32, ofInts (List.flatten o.board)⟩),
   ("action_mask", ⟨gridShape o.mask, .bool, ofBools (List.flatten o.mask)⟩),
   ("num_mines", ⟨[], .int32, [(o.numMines : Rat)]⟩),
   ("step_count", ⟨[], .int32, [(o.stepCount : Rat)]⟩)]

def actionArr (r c : Int) : Arr := ⟨[2], .int32, [(r : Rat), (c : Rat)]⟩

theorem shaped_rows {α : Type} (g : Grid α) (R C : Nat) (h : Grid.shaped g R C = true) :
    g.length = R ∧ ∀ row ∈ g, row.length = C := by
  simpa [Grid.shaped] using h

theorem shaped_map {α β : Type} (f : α → β) (g : Grid α) (R C : Nat) (h : Grid.shaped g R C = true) :
    Grid.shaped (Grid.map f g) R C = true := by
  simp only [Grid.shaped, Grid.map, List.length_map, List.all_map, Bool.and_eq_true, beq_iff_eq, List.all_eq_true,
    Function.comp] at h ⊢
  exact h

/-- C01: shapes `(R, C)`, cells in [−1, 8], `num_mines` in [0, R·C − 1], `step_count` in [0, R·C − num_mines] ⇒ member -/
theorem obs_valid (cfg : Cfg) (o : Obs) (hR : 0 < cfg.numRows)
    (hb : Grid.shaped o.board cfg.numRows cfg.numCols = true) (hmk : Grid.shaped o.mask cfg.numRows cfg.numCols = true)
    (hv : ∀ v ∈ (List.flatten o.board), -1 ≤ v ∧ v ≤ 8)
    (hn : 0 ≤ o.numMines ∧ o.numMines ≤ ((cells cfg : Nat) : Int) - 1)
    (hs : 0 ≤ o.stepCount ∧ o.stepCount ≤ ((cells cfg : Nat) : Int) - (cfg.numMines : Int)) :
    (obsSpec cfg).valid (toNValue o) = true := by
  obtain ⟨hl, hrows⟩ := shaped_rows _ _ _ hb
  obtain ⟨hl', hrows'⟩ := shaped_rows _ _ _ hmk
  obtain ⟨hsh, hlen⟩ := gridShape_of_rows o.board _ _ hl hrows (by omega)
  obtain ⟨hsh', hlen'⟩ := gridShape_of_rows o.mask _ _ hl' hrows' (by omega)
  have h1 : (Leaf.bounded [cfg.numRows, cfg.numCols] .int32 "board" [] [((-1 : Int) : Rat)] [] [((8 : Int) : Rat)]).valid
      ⟨gridShape o.board, .int32, ofInts (List.flatten o.board)⟩ = true := by
    rw [hsh]
    exact valid_scalar_bounded _ _ _ _ _ _ (by rw [ofInts, List.length_map, hlen, prod_two])
      (ofInts_bounds (List.flatten o.board) (-1) 8 hv)
  have h2 : (Leaf.bounded [cfg.numRows, cfg.numCols] .bool "action_mask" [] [0] [] [1]).valid
      ⟨gridShape o.mask, .bool, ofBools (List.flatten o.mask)⟩ = true := by
    rw [hsh']; exact valid_bools _ _ _ (by rw [hlen', prod_two])
  have h3 := valid_scalar_int .int32 "num_mines" 0 (((cells cfg : Nat) : Int) - 1) o.numMines hn
  have h4 := valid_scalar_int .int32 "step_count" 0 (((cells cfg : Nat) : Int) - (cfg.numMines : Int)) o.stepCount hs
  simp only [Nested.valid, obsSpec, toNValue, List.map, List.zipWith, List.all, h1, h2, h3, h4, id,
    Bool.and_self, beq_self_eq_true]

/-- … and `validate` accepts nothing else -/
theorem obs_valid_only (cfg : Cfg) (o : Obs) (h : (obsSpec cfg).valid (toNValue o) = true) :
    gridShape o.board = [cfg.numRows, cfg.numCols] ∧ gridShape o.mask = [cfg.numRows, cfg.numCols] ∧
    (∀ v ∈ (List.flatten o.board), -1 ≤ v ∧ v ≤ 8) ∧
    (0 ≤ o.numMines ∧ o.numMines ≤ ((cells cfg : Nat) : Int) - 1) ∧
    (0 ≤ o.stepCount ∧ o.stepCount ≤ ((cells cfg : Nat) : Int) - (cfg.numMines : Int)) := by
  simp only [Nested.valid, obsSpec, toNValue, List.map_cons, List.map_nil, List.zipWith_cons_cons, List.zipWith_nil_right,
    List.all_cons, List.all_nil, id, Bool.and_true, Bool.and_eq_true, beq_self_eq_true, true_and] at h
  obtain ⟨h1, h2, h3, h4⟩ := h
  rw [valid_scalar_bounded_iff] at h1 h2
  rw [valid_scalar_int_iff] at h3 h4
  refine ⟨h1.1, h2.1, ?_, h3, h4⟩
  intro v hv
  have := h1.2.2.2 (v : Rat) (by simp only [ofInts, List.mem_map]; exact ⟨v, hv, rfl⟩)
  exact ⟨Rat.intCast_le_intCast.mp this.1, Rat.intCast_le_intCast.mp this.2⟩

/-- from the interval theorem (`ObsInBounds`) and the shapes to membership -/
theorem obs_valid_of_inBounds (cfg : Cfg) (o : Obs) (hM : cfg.numMines < cells cfg)
    (hb : Grid.shaped o.board cfg.numRows cfg.numCols = true) (hmk : Grid.shaped o.mask cfg.numRows cfg.numCols = true)
    (h : ObsInBounds (obsBounds cfg) (obsLeaves o)) : (obsSpec cfg).valid (toNValue o) = true := by
  have hR : 0 < cfg.numRows := by
    unfold cells at hM
    apply Classical.byContradiction; intro hc
    have : cfg.numRows = 0 := by omega
    rw [this] at hM; simp at hM
  have hboard := h.2 "board" (iv (-1) 8) (by simp [obsBounds]) (ints2 o.board) (by simp [obsLeaves])
  have hnum := h.2 "num_mines" (iv (cfg.numMines : Int) (cfg.numMines : Int)) (by simp [obsBounds]) [o.numMines]
    (by simp [obsLeaves])
  have hstep := h.2 "step_count" (iv 0 (((cfg.numRows * cfg.numCols : Nat) : Int) - (cfg.numMines : Int)))
    (by simp [obsBounds]) [o.stepCount] (by simp [obsLeaves])
  have e1 := has_iv.1 (hnum o.numMines (by simp))
  have e2 := has_iv.1 (hstep o.stepCount (by simp))
  refine obs_valid cfg o hR hb hmk (fun v hv => has_iv.1 (hboard v hv)) ?_ e2
  unfold cells at hM ⊢
  omega

/-! ### C01: reset / step emit members of the declared specs -/

theorem reset_obs_valid (cfg : Cfg) (s : State) (h : InstanceOK cfg s) (hM : cfg.numMines < cells cfg) :
    (obsSpec cfg).valid (toNValue (resetTimeStep cfg s).obs) = true :=
  obs_valid_of_inBounds cfg _ hM h.1 (shaped_map _ _ _ _ h.1) (reset_obs_in_bounds cfg s h)

theorem generate_obs_valid (cfg : Cfg) (d : List Nat) (hd : validDraw cfg d) (hM : cfg.numMines < cells cfg) :
    (obsSpec cfg).valid (toNValue (resetTimeStep cfg (generate cfg d)).obs) = true :=
  reset_obs_valid cfg _ (generate_instanceOK cfg d hd) hM

theorem step_board_shaped (cfg : Cfg) (s : State) (hs : Grid.shaped s.board cfg.numRows cfg.numCols = true)
    (hms : ∀ m ∈ s.mines, 0 ≤ m) (r c : Nat) (hr : r < cfg.numRows) (hc : c < cfg.numCols) :
    Grid.shaped (step cfg s r c).1.board cfg.numRows cfg.numCols = true := by
  rw [step_state cfg s _ _ hs hms r c hr hc]
  exact Grid.shaped_set _ _ _ _ _ _ hs

theorem step_obs_valid (cfg : Cfg) (s : State) (hcs : Consistent cfg s) (r c : Nat)
    (hr : r < cfg.numRows) (hc : c < cfg.numCols) (hns : isSolved s = false) (hM : cfg.numMines < cells cfg) :
    (obsSpec cfg).valid (toNValue (step cfg s r c).2.obs) = true := by
  have hb := step_board_shaped cfg s hcs.1 (mines_nonneg cfg s hcs.2.1) r c hr hc
  have e : (step cfg s r c).2.obs = observeL1 cfg (step cfg s r c).1 := by simp [step]
  refine obs_valid_of_inBounds cfg _ hM ?_ ?_ (step_obs_in_bounds cfg s hcs r c hr hc hns)
  · rw [e]; exact hb
  · rw [e]; exact shaped_map _ _ _ _ hb

theorem step_reward_discount_valid (cfg : Cfg) (s : State) (r c : Int) :
    PzS.rewardSpec.valid (scalarArr (step cfg s r c).2.reward) = true ∧
    discountSpec.valid (scalarArr (step cfg s r c).2.discount) = true := condLast_reward_discount_valid _ _ _

theorem step_protocol (cfg : Cfg) (s : State) (r c : Int) : StepOK none false (step cfg s r c).2 = true :=
  condLast_stepOK _ _ _

theorem actionSpec_generate (cfg : Cfg) : (actionSpec cfg).generate = actionArr 0 0 := by
  simp [actionSpec, Leaf.generate, Leaf.lower, Leaf.shape, Leaf.dtype, actionArr]

/-! ### C04: the reaction of `step` itself -/

/-- from a consistent state, for every square of the board: the rules allow exploring it iff `step` revealed one more
square; and `step` treated the action as invalid (LAST with nothing new revealed — how the harness reads the reaction off a
transition) iff the rules forbid it -/
theorem step_reaction (cfg : Cfg) (s : State) (hcs : Consistent cfg s) (r c : Nat) (hr : r < cfg.numRows)
    (hc : c < cfg.numCols) :
    (legal s r c ↔ explored (step cfg s r c).1.board = explored s.board + 1) ∧
    (¬ legal s r c ↔ ((step cfg s r c).2.stepType = .last ∧ explored (step cfg s r c).1.board = explored s.board)) := by
  obtain ⟨hs, hmo, hb, hnm, hsc⟩ := hcs
  have hms := mines_nonneg cfg s hmo
  by_cases hl : legal s r c
  · have e := (reward_telescopes cfg s _ _ hs hms r c hr hc hl).1
    exact ⟨⟨fun _ => e, fun _ => hl⟩, ⟨fun h => absurd hl h, fun h => by omega⟩⟩
  · have e := illegal_board cfg s _ _ hs hms hb r c hr hc hl
    have e1 := (illegal_step cfg s _ _ hs hms r c hr hc hl).1
    refine ⟨⟨fun h => absurd h hl, fun h => ?_⟩, ⟨fun _ => ⟨e1, by rw [e]⟩, fun _ => hl⟩⟩
    rw [e] at h; omega

/-! ### C12: the reset observation -/

theorem observeL1_eq_observe (cfg : Cfg) (s : State) (hm : s.mines.length = cfg.numMines) :
    observeL1 cfg s = observe s := by
  unfold observeL1 observe
  rw [hm]
  congr 1

theorem reset_obs_faithful (cfg : Cfg) (s : State) (hm : s.mines.length = cfg.numMines) :
    (resetTimeStep cfg s).obs = observe s := observeL1_eq_observe cfg s hm

/-! ### C07 / C11: whole episodes -/

/-- the mine table of the final state of ANY play (any actions, any ending) is the initial one -/
theorem play_mines (cfg : Cfg) (s : State) (as : List (Nat × Nat)) : (play cfg s as).final.mines = s.mines := by
  induction as generalizing s with
  | nil => rfl
  | cons a as ih =>
    simp only [play]
    split
    · rfl
    · exact ih _

/-- a play that has not met LAST: every action revealed one new square, the final state is consistent, and (if at least
one action was played) the number of explored squares has not reached `cells − mines` -/
theorem play_running_explored (cfg : Cfg) (s : State) (hcs : Consistent cfg s) (as : List (Nat × Nat))
    (hin : ∀ a ∈ as, a.1 < cfg.numRows ∧ a.2 < cfg.numCols) (hrun : (play cfg s as).ending = .running) :
    explored (play cfg s as).final.board = explored s.board + as.length ∧ Consistent cfg (play cfg s as).final ∧
    (as ≠ [] → ((explored (play cfg s as).final.board : Nat) : Int) ≠
      ((cfg.numRows * cfg.numCols : Nat) : Int) - (cfg.numMines : Int)) := by
  induction as generalizing s with
  | nil => exact ⟨rfl, hcs, fun h => absurd rfl h⟩
  | cons a as ih =>
    obtain ⟨hr, hc⟩ := hin a (List.mem_cons_self ..)
    by_cases hlast : (step cfg s a.1 a.2).2.stepType = .last
    · simp only [play, hlast, if_true] at hrun
      by_cases hl : legal s a.1 a.2
      · cases hm : isMine s a.1 a.2 <;> simp [hl, hm] at hrun
      · simp [hl] at hrun
    · simp only [play, hlast, if_false] at hrun ⊢
      have hms := mines_nonneg cfg s hcs.2.1
      obtain ⟨p1, p2⟩ := progress cfg s _ _ hcs.1 hms a.1 a.2 hr hc hlast
      have hcs' := step_consistent cfg s hcs a.1 a.2 hr hc hlast
      obtain ⟨i1, i2, i3⟩ := ih _ hcs' (fun b hb => hin b (List.mem_cons_of_mem _ hb)) hrun
      refine ⟨by rw [i1, p1, List.length_cons]; omega, i2, fun _ => ?_⟩
      cases as with
      | nil =>
        simp only [play]
        rw [hcs.2.1.1] at p2
        exact p2
      | cons b bs => exact i3 (by simp)

/-- C11 (structural horizon): from a consistent state with `e` explored squares, a play of in-spec actions that has not
met LAST is either empty or shorter than `cells − mines − e` -/
theorem play_running_short (cfg : Cfg) (s : State) (hcs : Consistent cfg s) (as : List (Nat × Nat))
    (hin : ∀ a ∈ as, a.1 < cfg.numRows ∧ a.2 < cfg.numCols) (hrun : (play cfg s as).ending = .running)
    (hne : as ≠ []) : explored s.board + as.length + cfg.numMines < cfg.numRows * cfg.numCols := by
  obtain ⟨h1, h2, h3⟩ := play_running_explored cfg s hcs as hin hrun
  have hle := explored_add_mines_le cfg _ h2.1 h2.2.1 h2.2.2.2.1
  have := h3 hne
  omega

/-- … and a play that ended by clearing the board ended with `step_count = explored squares = cells − mines` -/
theorem play_cleared_count (cfg : Cfg) (s : State) (hcs : Consistent cfg s) (as : List (Nat × Nat))
    (hin : ∀ a ∈ as, a.1 < cfg.numRows ∧ a.2 < cfg.numCols) (hcl : (play cfg s as).ending = .cleared) :
    (play cfg s as).final.stepCount = ((cfg.numRows * cfg.numCols : Nat) : Int) - (cfg.numMines : Int) ∧
    ((explored (play cfg s as).final.board : Nat) : Int) = (play cfg s as).final.stepCount := by
  induction as generalizing s with
  | nil => simp [play] at hcl
  | cons a as ih =>
    obtain ⟨hr, hc⟩ := hin a (List.mem_cons_self ..)
    obtain ⟨c1, c2, c3⟩ := step_cases cfg s hcs a.1 a.2 hr hc
    by_cases hlast : (step cfg s a.1 a.2).2.stepType = .last
    · simp only [play, hlast, if_true] at hcl ⊢
      have hl : legal s a.1 a.2 := by
        apply Classical.byContradiction; intro h; simp [h] at hcl
      have hm : isMine s a.1 a.2 = false := by
        cases hm : isMine s a.1 a.2
        · rfl
        · simp [hl, hm] at hcl
      have hsol := (c3 hl hm).2.2.2 hlast
      have hms := mines_nonneg cfg s hcs.2.1
      have hb' := step_board_shaped cfg s hcs.1 hms a.1 a.2 hr hc
      have hex := (reward_telescopes cfg s _ _ hcs.1 hms a.1 a.2 hr hc hl).1
      have hR : 0 < cfg.numRows := by omega
      have n1 := nrows_eq _ _ _ hb'
      have n2 := ncols_eq _ _ _ hb' hR
      have hsc : (step cfg s a.1 a.2).1.stepCount = s.stepCount + 1 := rfl
      have hmn : (step cfg s a.1 a.2).1.mines = s.mines := rfl
      unfold isSolved at hsol
      rw [n1, n2, hmn, hcs.2.1.1] at hsol
      have hsol' : ((explored (step cfg s a.1 a.2).1.board : Nat) : Int) =
          ((cfg.numRows * cfg.numCols : Nat) : Int) - (cfg.numMines : Int) := by simpa using hsol
      have := hcs.2.2.2.2
      refine ⟨by rw [hsc, this, ← hsol', hex]; omega, by rw [hsc, this, hex]; omega⟩
    · simp only [play, hlast, if_false] at hcl ⊢
      exact ih _ (step_consistent cfg s hcs a.1 a.2 hr hc hlast) (fun b hb => hin b (List.mem_cons_of_mem _ hb)) hcl

theorem not_solved_of (cfg : Cfg) (s : State) (hcs : Consistent cfg s) (hR : 0 < cfg.numRows)
    (h : ((explored s.board : Nat) : Int) ≠ ((cfg.numRows * cfg.numCols : Nat) : Int) - (cfg.numMines : Int)) :
    isSolved s = false := by
  have n1 := nrows_eq _ _ _ hcs.1
  have n2 := ncols_eq _ _ _ hcs.1 hR
  unfold isSolved
  rw [n1, n2, hcs.2.1.1]
  simpa using h

/-- C01 along whole episodes: after ANY prefix of in-spec actions from a generated instance that has not met LAST, the
observation of the NEXT step (any square of the board; terminal or not) is a member of `observation_spec` -/
theorem episode_obs_valid (cfg : Cfg) (d : List Nat) (hd : validDraw cfg d) (hM : cfg.numMines < cells cfg)
    (as : List (Nat × Nat)) (hin : ∀ a ∈ as, a.1 < cfg.numRows ∧ a.2 < cfg.numCols)
    (hrun : (play cfg (generate cfg d) as).ending = .running) (r c : Nat) (hr : r < cfg.numRows) (hc : c < cfg.numCols) :
    (obsSpec cfg).valid (toNValue (step cfg (play cfg (generate cfg d) as).final r c).2.obs) = true := by
  have hi := generate_instanceOK cfg d hd
  have hcs := reset_consistent cfg _ hi
  obtain ⟨h1, h2, h3⟩ := play_running_explored cfg _ hcs as hin hrun
  refine step_obs_valid cfg _ h2 r c hr hc (not_solved_of cfg _ h2 (by omega) ?_) hM
  cases as with
  | nil =>
    have h0 : ((explored (generate cfg d).board : Nat) : Int) = 0 := by rw [← hcs.2.2.2.2]; rfl
    simp only [play]
    rw [h0]
    unfold cells at hM
    omega
  | cons a t => exact h3 (by simp)

theorem accepts_generate_value (cfg : Cfg) (hR : 0 < cfg.numRows) (hC : 0 < cfg.numCols)
    (hbig : cfg.numRows ≤ 2147483648 ∧ cfg.numCols ≤ 2147483648) (s : State) :
    (actionSpec cfg).WF = true ∧ (actionSpec cfg).valid (actionSpec cfg).generate = true ∧
    (actionSpec cfg).generate = actionArr 0 0 ∧ StepOK none false (step cfg s 0 0).2 = true := by
  have hw : (actionSpec cfg).WF = true := by
    have fitsI : ∀ z : Int, -2147483648 ≤ z → z ≤ 2147483647 → DType.int32.fits ((z : Int) : Rat) = true := by
      intro z h1 h2; simp [DType.fits, DType.intRange, Rat.den_intCast, Rat.num_intCast, h1, h2]
    have h1 : DType.int32.fits (((((cfg.numRows : Nat)) : Int) - 1 : Int) : Rat) = true := fitsI _ (by omega) (by omega)
    have h2 : DType.int32.fits (((((cfg.numCols : Nat)) : Int) - 1 : Int) : Rat) = true := fitsI _ (by omega) (by omega)
    simp only [actionSpec, Leaf.WF, Leaf.WF0, Leaf.fitsDType, List.all_cons, List.all_nil, h1, h2]
    simp [prod, DType.isInt]; omega
  exact ⟨hw, Leaf.generate_valid _ hw, actionSpec_generate cfg, step_protocol cfg s 0 0⟩

theorem take_mem {α : Type} (as : List α) (k : Nat) : ∀ a ∈ as.take k, a ∈ as := fun _ h => List.mem_of_mem_take h

end Minesweeper
