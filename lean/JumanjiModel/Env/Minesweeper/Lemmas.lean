import JumanjiModel.Env.Minesweeper.Model
import JumanjiModel.Prim.Lemmas
import JumanjiModel.Env.Minesweeper.GridLemmas
namespace Minesweeper
open Jm Jx

/-! ### the mined board -/

theorem foldl_set_length (ms : List Int) (b : List Int) :
    (ms.foldl (fun b m => Jx.setWD b m 1) b).length = b.length := by
  induction ms generalizing b with
  | nil => rfl
  | cons m ms ih => simp [List.foldl_cons, ih, Jx.setWD_length]

theorem setWD_getD_nonneg (b : List Int) (m : Int) (hm : 0 ≤ m) (i : Nat) (hi : i < b.length) :
    (Jx.setWD b m 1).getD i 0 = if m = (i : Int) then 1 else b.getD i 0 := by
  unfold Jx.setWD Jx.wrapIdx
  have h1 : ¬ (m < 0) := by omega
  simp only [h1, if_false]
  by_cases h2 : m ≥ (b.length : Int)
  · simp only [h2, if_true]
    have : m ≠ (i : Int) := by omega
    simp [this]
  · simp only [h2, if_false]
    by_cases h3 : m = (i : Int)
    · subst h3; simp [List.getD_eq_getElem?_getD, hi]
    · have : m.toNat ≠ i := by omega
      simp [List.getD_eq_getElem?_getD, this, h3]

theorem foldl_set_getD (ms : List Int) (b : List Int) (hms : ∀ m ∈ ms, 0 ≤ m) (i : Nat) (hi : i < b.length) :
    (ms.foldl (fun b m => Jx.setWD b m 1) b).getD i 0 = if (i : Int) ∈ ms then 1 else b.getD i 0 := by
  induction ms generalizing b with
  | nil => simp
  | cons m ms ih =>
    have hm : 0 ≤ m := hms m (by simp)
    have hms' : ∀ m ∈ ms, 0 ≤ m := fun x hx => hms x (by simp [hx])
    simp only [List.foldl_cons]
    rw [ih _ hms' (by rw [Jx.setWD_length]; exact hi), setWD_getD_nonneg b m hm i hi]
    by_cases h1 : (i : Int) ∈ ms
    · simp [h1]
    · by_cases h2 : m = (i : Int)
      · simp [h2]
      · have : ¬ ((i : Int) = m) := fun h => h2 h.symm
        simp [h1, h2, this]

theorem minedFlat_length (s : State) : (minedFlat s).length = ncols s * nrows s := by
  unfold minedFlat; rw [foldl_set_length]; simp

theorem minedFlat_getD (s : State) (hms : ∀ m ∈ s.mines, 0 ≤ m) (i : Nat) (hi : i < ncols s * nrows s) :
    (minedFlat s).getD i 0 = if (i : Int) ∈ s.mines then 1 else 0 := by
  unfold minedFlat
  rw [foldl_set_getD _ _ hms i (by simpa using hi)]
  simp [List.getD_eq_getElem?_getD, hi]

theorem flat_index_lt {nr nc i j : Nat} (hi : i < nr) (hj : j < nc) : i * nc + j < nc * nr := by
  have h1 : (i + 1) * nc ≤ nr * nc := Nat.mul_le_mul_right nc hi
  rw [Nat.succ_mul] at h1
  rw [Nat.mul_comm nc nr]
  omega

/-! ### reshape and pad -/

theorem reshape_get {α} (xs : List α) (d : α) (nr nc i j : Nat) :
    Grid.get (reshape xs nr nc) d i j = if i < nr ∧ j < nc then xs.getD (i * nc + j) d else d := by
  unfold reshape
  rw [Grid.get_eq]
  by_cases hi : i < nr
  · have : List.getD (List.map (fun r => List.take nc (List.drop (r * nc) xs)) (List.range nr)) i [] =
        List.take nc (List.drop (i * nc) xs) := by
      simp [List.getD_eq_getElem?_getD, hi]
    rw [this]
    by_cases hj : j < nc
    · simp [List.getD_eq_getElem?_getD, hi, hj]
    · simp [List.getD_eq_getElem?_getD, hi, hj, List.getElem?_take]
  · have : List.getD (List.map (fun r => List.take nc (List.drop (r * nc) xs)) (List.range nr)) i [] = [] := by
      simp [List.getD_eq_getElem?_getD, hi]
    rw [this]; simp [hi]

theorem reshape_length {α} (xs : List α) (nr nc : Nat) : (reshape xs nr nc).length = nr := by
  unfold reshape; simp

theorem reshape_rowLen {α} (xs : List α) (nr nc i : Nat) (hi : i < nr) (hl : xs.length = nc * nr) :
    Grid.rowLen (reshape xs nr nc) i = nc := by
  unfold Grid.rowLen reshape
  have : List.getD (List.map (fun r => List.take nc (List.drop (r * nc) xs)) (List.range nr)) i [] =
      List.take nc (List.drop (i * nc) xs) := by
    simp [List.getD_eq_getElem?_getD, hi]
  rw [this]
  simp [hl]
  have h1 : (i + 1) * nc ≤ nr * nc := Nat.mul_le_mul_right nc hi
  rw [Nat.succ_mul] at h1
  rw [Nat.mul_comm nc nr]
  omega

theorem padRow_getD (row : List Int) (w j : Nat) :
    (List.replicate w (0 : Int) ++ row ++ List.replicate w 0).getD j 0 =
      if w ≤ j then row.getD (j - w) 0 else 0 := by
  simp only [List.getD_eq_getElem?_getD, List.append_assoc]
  by_cases h : w ≤ j
  · simp only [h, if_true]
    rw [List.getElem?_append_right (by simpa using h)]
    simp only [List.length_replicate]
    by_cases h2 : j - w < row.length
    · rw [List.getElem?_append_left h2]
    · rw [List.getElem?_append_right (by omega)]
      have : row[j - w]? = none := by simp; omega
      rw [this]
      by_cases h3 : j - w - row.length < w
      · simp [h3]
      · simp [h3]
  · simp only [h, if_false]
    rw [List.getElem?_append_left (by simpa using Nat.lt_of_not_le h)]
    simp [Nat.lt_of_not_le h]

theorem pad_get (g : Grid Int) (w i j : Nat) :
    Grid.get (pad g w) 0 i j = if w ≤ i ∧ w ≤ j then Grid.get g 0 (i - w) (j - w) else 0 := by
  unfold pad
  simp only [Grid.get_eq]
  have hz : ∀ k, (List.replicate (Grid.cols g + 2 * w) (0 : Int)).getD k 0 = 0 := by
    intro k; simp [List.getD_eq_getElem?_getD, List.getElem?_replicate]; split <;> rfl
  by_cases h : w ≤ i
  · have e1 : List.getD (List.replicate w (List.replicate (Grid.cols g + 2 * w) (0 : Int)) ++
        List.map (fun row => List.replicate w (0 : Int) ++ row ++ List.replicate w 0) g ++
        List.replicate w (List.replicate (Grid.cols g + 2 * w) (0 : Int))) i [] =
        if i - w < g.length then (List.replicate w (0 : Int) ++ List.getD g (i - w) [] ++ List.replicate w 0)
        else if i - w - g.length < w then List.replicate (Grid.cols g + 2 * w) (0 : Int) else [] := by
      simp only [List.getD_eq_getElem?_getD, List.append_assoc]
      rw [List.getElem?_append_right (by simpa using h)]
      simp only [List.length_replicate]
      by_cases h2 : i - w < g.length
      · rw [List.getElem?_append_left (by simpa using h2)]
        simp [h2]
      · rw [List.getElem?_append_right (by simpa using Nat.le_of_not_lt h2)]
        simp only [List.length_map, h2, if_false]
        by_cases h3 : i - w - g.length < w
        · simp [h3]
        · simp [h3]
    rw [e1]
    by_cases h2 : i - w < g.length
    · simp only [h2, if_true, padRow_getD, h, true_and]
    · simp only [h2, if_false]
      have : List.getD g (i - w) [] = [] := by
        have hn : g[i - w]? = none := by simp; omega
        simp [List.getD_eq_getElem?_getD, hn]
      rw [this]
      by_cases h3 : i - w - g.length < w
      · simp only [h3, if_true, hz]; simp
      · simp only [h3, if_false]; simp
  · have e1 : List.getD (List.replicate w (List.replicate (Grid.cols g + 2 * w) (0 : Int)) ++
        List.map (fun row => List.replicate w (0 : Int) ++ row ++ List.replicate w 0) g ++
        List.replicate w (List.replicate (Grid.cols g + 2 * w) (0 : Int))) i [] =
        List.replicate (Grid.cols g + 2 * w) (0 : Int) := by
      simp only [List.getD_eq_getElem?_getD, List.append_assoc]
      rw [List.getElem?_append_left (by simpa using Nat.lt_of_not_le h)]
      simp [Nat.lt_of_not_le h]
    rw [e1, hz]; simp [h]

theorem pad_length (g : Grid Int) (w : Nat) : (pad g w).length = g.length + 2 * w := by
  unfold pad; simp; omega

theorem pad_row_length (g : Grid Int) (w nr nc : Nat) (hs : Grid.shaped g nr nc = true) (hpos : 0 < nr)
    (row : List Int) (hrow : row ∈ pad g w) : row.length = nc + 2 * w := by
  have hc := Grid.cols_of_shaped g nr nc hs hpos
  unfold pad at hrow
  rw [hc] at hrow
  simp only [List.mem_append, List.mem_replicate, List.mem_map] at hrow
  unfold Grid.shaped at hs
  simp only [Bool.and_eq_true, beq_iff_eq, List.all_eq_true] at hs
  rcases hrow with (⟨_, rfl⟩ | ⟨x, hx, rfl⟩) | ⟨_, rfl⟩
  · simp
  · have := hs.2 x hx; simp [this]; omega
  · simp

/-! ### dynamic slices of size 3 -/

theorem drop_take3 {α} (xs : List α) (d : α) (k : Nat) (h : k + 3 ≤ xs.length) :
    (xs.drop k).take 3 = [xs.getD k d, xs.getD (k + 1) d, xs.getD (k + 2) d] := by
  have h0 : k < xs.length := by omega
  have h1 : k + 1 < xs.length := by omega
  have h2 : k + 2 < xs.length := by omega
  have e0 : xs.getD k d = xs[k] := by simp [List.getD_eq_getElem?_getD, h0]
  have e1 : xs.getD (k + 1) d = xs[k + 1] := by simp [List.getD_eq_getElem?_getD, h1]
  have e2 : xs.getD (k + 2) d = xs[k + 2] := by simp [List.getD_eq_getElem?_getD, h2]
  rw [e0, e1, e2, List.drop_eq_getElem_cons h0, List.drop_eq_getElem_cons h1, List.drop_eq_getElem_cons h2]
  rfl

theorem dynSlice3 {α} (xs : List α) (d : α) (k : Nat) (h : k + 3 ≤ xs.length) :
    dynSlice xs (k : Int) 3 = [xs.getD k d, xs.getD (k + 1) d, xs.getD (k + 2) d] := by
  unfold dynSlice dynStart wrapIdx
  have h1 : ¬ ((k : Int) < 0) := by omega
  simp only [h1, if_false, Int.toNat_natCast]
  have h2 : min k (xs.length - 3) = k := by omega
  rw [h2]; exact drop_take3 xs d k h

/-! ### the mined grid in terms of the rules -/

/-- 1 if the (possibly off-board) square is a mine, else 0 -/
def mz (s : State) (i j : Int) : Int := if isMineZ s i j then 1 else 0

theorem minedGrid_get (s : State) (hms : ∀ m ∈ s.mines, 0 ≤ m) (i j : Nat) :
    Grid.get (minedGrid s) 0 i j = mz s i j := by
  unfold minedGrid mz isMineZ isMine
  rw [reshape_get]
  by_cases h : i < nrows s ∧ j < ncols s
  · rw [if_pos h, minedFlat_getD s hms _ (flat_index_lt h.1 h.2)]
    have h1 : (i : Int) < (nrows s : Int) := by omega
    have h2 : (j : Int) < (ncols s : Int) := by omega
    simp [h1, h2]
  · rw [if_neg h]
    by_cases h1 : i < nrows s
    · have h2 : ¬ ((j : Int) < (ncols s : Int)) := by have := fun hj => h ⟨h1, hj⟩; omega
      simp [h2]
    · have h2 : ¬ ((i : Int) < (nrows s : Int)) := by omega
      simp [h2]

theorem padded_get (s : State) (hms : ∀ m ∈ s.mines, 0 ≤ m) (i j : Nat) :
    Grid.get (pad (minedGrid s) 2) 0 i j = mz s ((i : Int) - 2) ((j : Int) - 2) := by
  rw [pad_get]
  by_cases h : 2 ≤ i ∧ 2 ≤ j
  · rw [if_pos h, minedGrid_get s hms]
    have e1 : ((i - 2 : Nat) : Int) = (i : Int) - 2 := by omega
    have e2 : ((j - 2 : Nat) : Int) = (j : Int) - 2 := by omega
    rw [e1, e2]
  · rw [if_neg h]
    unfold mz isMineZ
    by_cases h1 : 2 ≤ i
    · have h2 : ¬ (2 ≤ j) := fun hj => h ⟨h1, hj⟩
      simp; intros; omega
    · simp; intros; omega

theorem minedGrid_shaped (s : State) : Grid.shaped (minedGrid s) (nrows s) (ncols s) = true := by
  rw [Grid.shaped_iff]
  unfold minedGrid
  exact ⟨reshape_length _ _ _, fun r hr => reshape_rowLen _ _ _ r hr (minedFlat_length s)⟩

/-- sum of the 3x3 patch of the padded mined board around `(r, c)` -/
theorem patch_sum (s : State) (hms : ∀ m ∈ s.mines, 0 ≤ m) (r c : Nat) (hr : r < nrows s) (hc : c < ncols s) :
    (((dynSlice (pad (minedGrid s) 2) ((r : Int) + 1) 3).map (fun row => dynSlice row ((c : Int) + 1) 3)).flatten).sum =
      mz s ((r : Int) + -1) ((c : Int) + -1) + mz s ((r : Int) + -1) c + mz s ((r : Int) + -1) ((c : Int) + 1) +
      (mz s r ((c : Int) + -1) + mz s r c + mz s r ((c : Int) + 1)) +
      (mz s ((r : Int) + 1) ((c : Int) + -1) + mz s ((r : Int) + 1) c + mz s ((r : Int) + 1) ((c : Int) + 1)) := by
  have hsh := minedGrid_shaped s
  have hpos : 0 < nrows s := by omega
  have hlen : (pad (minedGrid s) 2).length = nrows s + 4 := by
    rw [pad_length]; rw [Grid.shaped_iff] at hsh; omega
  have er : (r : Int) + 1 = ((r + 1 : Nat) : Int) := by omega
  have ec : (c : Int) + 1 = ((c + 1 : Nat) : Int) := by omega
  rw [er, dynSlice3 (pad (minedGrid s) 2) [] (r + 1) (by omega)]
  have hrow : ∀ k, k < nrows s + 4 → ((pad (minedGrid s) 2).getD k []).length = ncols s + 4 := by
    intro k hk
    have hk' : k < (pad (minedGrid s) 2).length := by omega
    have hm : (pad (minedGrid s) 2).getD k [] ∈ pad (minedGrid s) 2 := by
      simp [List.getD_eq_getElem?_getD, hk']
    have := pad_row_length (minedGrid s) 2 (nrows s) (ncols s) hsh hpos _ hm
    omega
  simp only [List.map_cons, List.map_nil]
  rw [ec, dynSlice3 _ 0 (c + 1) (by rw [hrow (r + 1) (by omega)]; omega),
      dynSlice3 _ 0 (c + 1) (by rw [hrow (r + 1 + 1) (by omega)]; omega),
      dynSlice3 _ 0 (c + 1) (by rw [hrow (r + 1 + 2) (by omega)]; omega)]
  simp only [← Grid.get_eq, padded_get s hms]
  have a1 : ((r + 1 : Nat) : Int) - 2 = (r : Int) + -1 := by omega
  have a2 : ((r + 1 + 1 : Nat) : Int) - 2 = (r : Int) := by omega
  have a3 : ((r + 1 + 2 : Nat) : Int) - 2 = (r : Int) + 1 := by omega
  have b1 : ((c + 1 : Nat) : Int) - 2 = (c : Int) + -1 := by omega
  have b2 : ((c + 1 + 1 : Nat) : Int) - 2 = (c : Int) := by omega
  have b3 : ((c + 1 + 2 : Nat) : Int) - 2 = (c : Int) + 1 := by omega
  rw [a1, a2, a3, b1, b2, b3]
  simp [List.sum_cons, Int.add_assoc]

theorem adjMines_eq (s : State) (r c : Nat) :
    ((adjMines s r c : Nat) : Int) =
      mz s ((r : Int) + -1) ((c : Int) + -1) + mz s ((r : Int) + -1) c + mz s ((r : Int) + -1) ((c : Int) + 1) +
      (mz s r ((c : Int) + -1) + mz s r ((c : Int) + 1)) +
      (mz s ((r : Int) + 1) ((c : Int) + -1) + mz s ((r : Int) + 1) c + mz s ((r : Int) + 1) ((c : Int) + 1)) := by
  unfold adjMines offsets mz
  rw [← List.countP_eq_length_filter]
  simp only [List.countP_cons, List.countP_nil, Int.add_zero]
  cases isMineZ s ((r : Int) + -1) ((c : Int) + -1) <;> cases isMineZ s ((r : Int) + -1) c <;>
  cases isMineZ s ((r : Int) + -1) ((c : Int) + 1) <;> cases isMineZ s r ((c : Int) + -1) <;>
  cases isMineZ s r ((c : Int) + 1) <;> cases isMineZ s ((r : Int) + 1) ((c : Int) + -1) <;>
  cases isMineZ s ((r : Int) + 1) c <;> cases isMineZ s ((r : Int) + 1) ((c : Int) + 1) <;> rfl

/-- C09: the transliterated pad / dynamic-slice count is the number of mined 8-neighbours -/
theorem count_eq (s : State) (hms : ∀ m ∈ s.mines, 0 ≤ m) (r c : Nat) (hr : r < nrows s) (hc : c < ncols s) :
    countAdjacentMines s r c = (adjMines s r c : Int) := by
  unfold countAdjacentMines
  simp only []
  rw [patch_sum s hms r c hr hc, adjMines_eq]
  have hsh := minedGrid_shaped s
  rw [Grid.shaped_iff] at hsh
  rw [Grid.getWC_nat (minedGrid s) 0 r c (by omega) (by rw [hsh.2 r hr]; exact hc), minedGrid_get s hms]
  omega

theorem exploredMine_eq (s : State) (hms : ∀ m ∈ s.mines, 0 ≤ m) (r c : Nat) (hr : r < nrows s) (hc : c < ncols s) :
    exploredMine s r c = isMine s r c := by
  unfold exploredMine isMine
  have hi := flat_index_lt hr hc
  have e : (c : Int) + (r : Int) * (ncols s : Int) = ((r * ncols s + c : Nat) : Int) := by
    simp [Int.natCast_add, Int.natCast_mul, Int.add_comm]
  rw [e, Jx.getWC_nat _ _ (by rw [minedFlat_length]; exact hi), minedFlat_getD s hms _ hi]
  by_cases h : ((r * ncols s + c : Nat) : Int) ∈ s.mines
  · rw [if_pos h]
    have : s.mines.contains ((r * ncols s + c : Nat) : Int) = true := by simpa using h
    rw [this]; rfl
  · rw [if_neg h]
    have : s.mines.contains ((r * ncols s + c : Nat) : Int) = false := by simpa using h
    rw [this]; rfl

/-! ### shapes -/

theorem nrows_eq (s : State) (nr nc : Nat) (hs : Grid.shaped s.board nr nc = true) : nrows s = nr := by
  rw [Grid.shaped_iff] at hs; exact hs.1

theorem ncols_eq (s : State) (nr nc : Nat) (hs : Grid.shaped s.board nr nc = true) (hpos : 0 < nr) :
    ncols s = nc := Grid.cols_of_shaped _ _ _ hs hpos

theorem rowLen_eq (s : State) (nr nc : Nat) (hs : Grid.shaped s.board nr nc = true) (r : Nat) (hr : r < nr) :
    Grid.rowLen s.board r = nc := by
  rw [Grid.shaped_iff] at hs; exact hs.2 r hr

/-! ### C04 -/

theorem get_map {α β} (f : α → β) (g : Grid α) (d : α) (d' : β) (r c : Nat) :
    Grid.get (Grid.map f g) d' r c = if r < g.length ∧ c < Grid.rowLen g r then f (Grid.get g d r c) else d' := by
  unfold Grid.map Grid.rowLen
  simp only [Grid.get_eq]
  by_cases hr : r < g.length
  · have e2 : List.getD g r [] = g[r] := by simp [List.getD_eq_getElem?_getD, hr]
    have e : List.getD (List.map (List.map f) g) r [] = List.map f g[r] := by
      simp [List.getD_eq_getElem?_getD, hr]
    rw [e, e2]
    by_cases hc : c < g[r].length
    · simp [List.getD_eq_getElem?_getD, hr, hc]
    · simp [List.getD_eq_getElem?_getD, hr, hc]
  · have e : List.getD (List.map (List.map f) g) r [] = [] := by
      have : g[r]? = none := by simp; omega
      simp [List.getD_eq_getElem?_getD, this]
    rw [e]; simp [hr]

theorem mask_iff_legal (cfg : Cfg) (s : State) (nr nc : Nat) (hs : Grid.shaped s.board nr nc = true)
    (r c : Nat) : Grid.get (observeL1 cfg s).mask false r c = true ↔ legal s r c := by
  unfold observeL1 legal cell
  simp only []
  rw [get_map (fun v => v == -1) s.board 0 false r c]
  have h1 := nrows_eq s nr nc hs
  have h1' : s.board.length = nr := h1
  by_cases hr : r < nr
  · have h2 := ncols_eq s nr nc hs (by omega)
    have h3 := rowLen_eq s nr nc hs r hr
    by_cases hc : c < nc
    · simp [h1, h1', h2, h3, hr, hc]
    · simp [h1, h1', h2, h3, hr, hc]
  · simp [h1, h1', hr]

theorem isValid_iff_legal (s : State) (nr nc : Nat) (hs : Grid.shaped s.board nr nc = true)
    (r c : Nat) (hr : r < nr) (hc : c < nc) : isValid s r c = true ↔ legal s r c := by
  have h1 := nrows_eq s nr nc hs
  have h2 := ncols_eq s nr nc hs (by omega)
  have h3 := rowLen_eq s nr nc hs r hr
  unfold isValid legal cell
  rw [Grid.getWC_nat s.board 0 r c (by unfold nrows at h1; omega) (by omega)]
  simp [h1, h2, hr, hc]

/-! ### the step -/

/-- C09: on an in-range action the successor is the one the rules prescribe: the chosen square shows
its number of adjacent mines, one more step is counted, the mines stay -/
theorem step_state (cfg : Cfg) (s : State) (nr nc : Nat) (hs : Grid.shaped s.board nr nc = true)
    (hms : ∀ m ∈ s.mines, 0 ≤ m) (r c : Nat) (hr : r < nr) (hc : c < nc) :
    (step cfg s r c).1 = { board := reveal s r c, stepCount := s.stepCount + 1, mines := s.mines } := by
  have h1 := nrows_eq s nr nc hs
  have h2 := ncols_eq s nr nc hs (by omega)
  have h3 := rowLen_eq s nr nc hs r hr
  unfold step reveal
  simp only []
  rw [count_eq s hms r c (by omega) (by omega),
      Grid.setWD_nat s.board r c _ (by unfold nrows at h1; omega) (by omega)]

theorem explored_reveal (s : State) (nr nc : Nat) (hs : Grid.shaped s.board nr nc = true)
    (r c : Nat) (hr : r < nr) (hc : c < nc) (hl : cell s r c = -1) :
    explored (reveal s r c) = explored s.board + 1 := by
  have h1 := nrows_eq s nr nc hs
  have h3 := rowLen_eq s nr nc hs r hr
  unfold explored reveal
  have := Grid.count_set (fun v => decide (0 ≤ v)) s.board 0 r c ((adjMines s r c : Nat) : Int)
    (by unfold nrows at h1; omega) (by omega)
  unfold cell at hl
  rw [hl] at this
  simpa using this

theorem explored_reveal_same (s : State) (nr nc : Nat) (hs : Grid.shaped s.board nr nc = true)
    (r c : Nat) (hr : r < nr) (hc : c < nc) (hl : 0 ≤ cell s r c) :
    explored (reveal s r c) = explored s.board := by
  have h1 := nrows_eq s nr nc hs
  have h3 := rowLen_eq s nr nc hs r hr
  unfold explored reveal
  have := Grid.count_set (fun v => decide (0 ≤ v)) s.board 0 r c ((adjMines s r c : Nat) : Int)
    (by unfold nrows at h1; omega) (by omega)
  unfold cell at hl
  simp [hl] at this
  simpa using this

/-- the rules' termination test: illegal move, mine, or all safe squares revealed -/
def doneSpec (s : State) (r c : Nat) : Prop :=
  ¬ legal s r c ∨ isMine s r c = true ∨
    ((explored (reveal s r c) : Nat) : Int) = ((nrows s * ncols s : Nat) : Int) - (s.mines.length : Int)

def rewardSpec (cfg : Cfg) (s : State) (r c : Nat) : Rat :=
  if legal s r c then (if isMine s r c then cfg.rMine else cfg.rEmpty) else cfg.rInvalid

theorem step_reward (cfg : Cfg) (s : State) (nr nc : Nat) (hs : Grid.shaped s.board nr nc = true)
    (hms : ∀ m ∈ s.mines, 0 ≤ m) (r c : Nat) (hr : r < nr) (hc : c < nc) :
    (step cfg s r c).2.reward = [rewardSpec cfg s r c] := by
  have h1 := nrows_eq s nr nc hs
  have h2 := ncols_eq s nr nc hs (by omega)
  have hv := isValid_iff_legal s nr nc hs r c hr hc
  have hm := exploredMine_eq s hms r c (by omega) (by omega)
  unfold step condLast termination transition reward rewardSpec
  simp only []
  rw [hm]
  by_cases hl : legal s r c
  · have : isValid s r c = true := hv.2 hl
    simp only [this, hl, if_true]
    split <;> rfl
  · have : isValid s r c = false := by
      cases hh : isValid s r c
      · rfl
      · exact absurd (hv.1 hh) hl
    simp [this, hl]

theorem step_last_iff (cfg : Cfg) (s : State) (nr nc : Nat) (hs : Grid.shaped s.board nr nc = true)
    (hms : ∀ m ∈ s.mines, 0 ≤ m) (r c : Nat) (hr : r < nr) (hc : c < nc) :
    (step cfg s r c).2.stepType = .last ↔ doneSpec s r c := by
  have h1 := nrows_eq s nr nc hs
  have h2 := ncols_eq s nr nc hs (by omega)
  have hv := isValid_iff_legal s nr nc hs r c hr hc
  have hm := exploredMine_eq s hms r c (by omega) (by omega)
  have hst := step_state cfg s nr nc hs hms r c hr hc
  have hsol : isSolved (step cfg s r c).1 = true ↔
      ((explored (reveal s r c) : Nat) : Int) = ((nrows s * ncols s : Nat) : Int) - (s.mines.length : Int) := by
    rw [hst]
    unfold isSolved nrows ncols
    simp only [beq_iff_eq]
    have e1 : (reveal s r c).length = s.board.length := by unfold reveal; rw [Grid.set_length]
    have e2 : Grid.cols (reveal s r c) = Grid.cols s.board := by
      unfold reveal
      have := Grid.shaped_set s.board nr nc r c ((adjMines s r c : Nat) : Int) hs
      rw [Grid.cols_of_shaped _ _ _ this (by omega), Grid.cols_of_shaped _ _ _ hs (by omega)]
    rw [e1, e2]
  have key : (step cfg s r c).2.stepType = .last ↔
      (!(isValid s r c) || exploredMine s r c || isSolved (step cfg s r c).1) = true := by
    unfold step condLast termination transition
    simp only []
    split <;> simp_all
  have hval : isValid s r c = false ↔ ¬ legal s r c := by
    rw [← hv]; cases isValid s r c <;> simp
  rw [key]
  simp only [Bool.or_eq_true, Bool.not_eq_true', or_assoc]
  rw [hm, hsol, hval]
  rfl

/-- C05: selecting an explored square ends the episode with the invalid-action reward; nothing is
revealed (on a board whose explored squares show their counts) and no mine moves -/
theorem illegal_step (cfg : Cfg) (s : State) (nr nc : Nat) (hs : Grid.shaped s.board nr nc = true)
    (hms : ∀ m ∈ s.mines, 0 ≤ m) (r c : Nat) (hr : r < nr) (hc : c < nc) (h : ¬ legal s r c) :
    (step cfg s r c).2.stepType = .last ∧ (step cfg s r c).2.reward = [cfg.rInvalid] ∧
    (step cfg s r c).1.mines = s.mines := by
  refine ⟨(step_last_iff cfg s nr nc hs hms r c hr hc).2 (Or.inl h), ?_, rfl⟩
  rw [step_reward cfg s nr nc hs hms r c hr hc]
  unfold rewardSpec; simp [h]

theorem illegal_board (cfg : Cfg) (s : State) (nr nc : Nat) (hs : Grid.shaped s.board nr nc = true)
    (hms : ∀ m ∈ s.mines, 0 ≤ m) (hb : BoardOK s) (r c : Nat) (hr : r < nr) (hc : c < nc)
    (h : ¬ legal s r c) : (step cfg s r c).1.board = s.board := by
  have h1 := nrows_eq s nr nc hs
  have h2 := ncols_eq s nr nc hs (by omega)
  have h3 := rowLen_eq s nr nc hs r hr
  rw [step_state cfg s nr nc hs hms r c hr hc]
  simp only [reveal]
  have hcell : cell s r c = (adjMines s r c : Int) := by
    rcases hb r (by omega) c (by omega) with h' | h'
    · exact absurd ⟨by omega, by omega, h'⟩ h
    · exact h'
  rw [← hcell]
  unfold cell
  have hr' : r < s.board.length := by unfold nrows at h1; omega
  rw [Grid.set_eq _ _ _ _ hr', Grid.get_eq]
  unfold Grid.rowLen at h3
  have e : List.getD s.board r [] = s.board[r] := by simp [List.getD_eq_getElem?_getD, hr']
  rw [e] at h3 ⊢
  have hc' : c < s.board[r].length := by omega
  have : (s.board[r]).set c ((s.board[r]).getD c 0) = s.board[r] := by
    simp [List.getD_eq_getElem?_getD, hc']
  rw [this]; simp

/-- C12 -/
theorem obs_faithful (cfg : Cfg) (s : State) (r c : Int) (hm : s.mines.length = cfg.numMines) :
    (step cfg s r c).2.obs = observe (step cfg s r c).1 := by
  have e : ∀ s' : State, s'.mines.length = cfg.numMines → observeL1 cfg s' = observe s' := by
    intro s' h'
    unfold observeL1 observe
    rw [h']
    congr 1
  unfold step condLast termination transition
  simp only []
  split <;> exact e _ hm

/-- C11: every step that does not end the episode reveals exactly one new square, and the number of
explored squares stays below `cells − mines` -/
theorem progress (cfg : Cfg) (s : State) (nr nc : Nat) (hs : Grid.shaped s.board nr nc = true)
    (hms : ∀ m ∈ s.mines, 0 ≤ m) (r c : Nat) (hr : r < nr) (hc : c < nc)
    (hn : (step cfg s r c).2.stepType ≠ .last) :
    explored (step cfg s r c).1.board = explored s.board + 1 ∧
    ((explored (step cfg s r c).1.board : Nat) : Int) ≠ ((nr * nc : Nat) : Int) - (s.mines.length : Int) := by
  have h1 := nrows_eq s nr nc hs
  have h2 := ncols_eq s nr nc hs (by omega)
  have hn : ¬ doneSpec s r c := fun h => hn ((step_last_iff cfg s nr nc hs hms r c hr hc).2 h)
  unfold doneSpec at hn
  have hl : legal s r c := by
    cases Classical.em (legal s r c) with
    | inl h => exact h
    | inr h => exact absurd (Or.inl h) hn
  rw [step_state cfg s nr nc hs hms r c hr hc]
  simp only []
  refine ⟨explored_reveal s nr nc hs r c hr hc hl.2.2, ?_⟩
  intro hh
  apply hn
  right; right
  rw [h1, h2]; exact hh

/-! ### C07 -/

theorem isMine_congr (s s' : State) (h2 : ncols s' = ncols s) (h3 : s'.mines = s.mines) (r c : Nat) :
    isMine s' r c = isMine s r c := by
  unfold isMine; rw [h2, h3]

theorem adjMines_congr (s s' : State) (h1 : nrows s' = nrows s) (h2 : ncols s' = ncols s)
    (h3 : s'.mines = s.mines) (r c : Nat) : adjMines s' r c = adjMines s r c := by
  unfold adjMines isMineZ isMine; rw [h1, h2, h3]

theorem mines_nonneg (cfg : Cfg) (s : State) (h : MinesOK cfg s) : ∀ m ∈ s.mines, 0 ≤ m :=
  fun m hm => (h.2.2 m hm).1

/-- C07: whatever in-spec action is played, if the episode continues the successor is again a
physically possible configuration -/
theorem step_consistent (cfg : Cfg) (s : State) (hcs : Consistent cfg s) (r c : Nat)
    (hr : r < cfg.numRows) (hc : c < cfg.numCols)
    (hn : (step cfg s r c).2.stepType ≠ .last) : Consistent cfg (step cfg s r c).1 := by
  obtain ⟨hs, hmo, hb, hnm, hsc⟩ := hcs
  have hms := mines_nonneg cfg s hmo
  have h1 := nrows_eq s _ _ hs
  have h2 := ncols_eq s _ _ hs (by omega)
  have h3 := rowLen_eq s _ _ hs r hr
  have hnd : ¬ doneSpec s r c := fun h => hn ((step_last_iff cfg s _ _ hs hms r c hr hc).2 h)
  unfold doneSpec at hnd
  have hl : legal s r c := by
    cases Classical.em (legal s r c) with
    | inl h => exact h
    | inr h => exact absurd (Or.inl h) hnd
  have hnm' : isMine s r c = false := by
    cases hh : isMine s r c
    · rfl
    · exact absurd (Or.inr (Or.inl hh)) hnd
  rw [step_state cfg s _ _ hs hms r c hr hc]
  have hs' : Grid.shaped (reveal s r c) cfg.numRows cfg.numCols = true := Grid.shaped_set _ _ _ _ _ _ hs
  let s' : State := { board := reveal s r c, stepCount := s.stepCount + 1, mines := s.mines }
  have e1 : nrows s' = nrows s := by rw [nrows_eq s' _ _ hs', h1]
  have e2 : ncols s' = ncols s := by rw [ncols_eq s' _ _ hs' (by omega), h2]
  have hcell : ∀ r' c', cell s' r' c' = if r' = r ∧ c' = c then (adjMines s r c : Int) else cell s r' c' := by
    intro r' c'
    exact Grid.get_set s.board 0 r c _ r' c' (by unfold nrows at h1; omega) (by omega)
  refine ⟨hs', hmo, ?_, ?_, ?_⟩
  · intro r' hr' c' hc'
    show cell s' r' c' = -1 ∨ cell s' r' c' = (adjMines s' r' c' : Int)
    rw [hcell, adjMines_congr s s' e1 e2 rfl]
    by_cases h : r' = r ∧ c' = c
    · rw [if_pos h, h.1, h.2]; exact Or.inr rfl
    · rw [if_neg h]; exact hb r' (by rw [← e1]; exact hr') c' (by rw [← e2]; exact hc')
  · intro r' hr' c' hc'
    show cell s' r' c' = -1 ∨ isMine s' r' c' = false
    rw [hcell, isMine_congr s s' e2 rfl]
    by_cases h : r' = r ∧ c' = c
    · rw [h.1, h.2]; exact Or.inr hnm'
    · rw [if_neg h]; exact hnm r' (by rw [← e1]; exact hr') c' (by rw [← e2]; exact hc')
  · show s.stepCount + 1 = ((explored (reveal s r c) : Nat) : Int)
    rw [explored_reveal s _ _ hs r c hr hc hl.2.2, hsc]
    omega

/-- C07 (conserved quantity): a step never changes the mine table -/
theorem conserved (cfg : Cfg) (s : State) (r c : Int) : Conserved s (step cfg s r c).1 := rfl

theorem all_get {α} (p : α → Bool) (g : Grid α) (d : α) (h : Grid.all p g = true) (r c : Nat)
    (hr : r < g.length) (hc : c < Grid.rowLen g r) : p (Grid.get g d r c) = true := by
  unfold Grid.all at h
  simp only [List.all_eq_true] at h
  unfold Grid.rowLen at hc
  rw [Grid.get_eq]
  have e : List.getD g r [] = g[r] := by simp [List.getD_eq_getElem?_getD, hr]
  rw [e] at hc ⊢
  have := h g[r] (List.getElem_mem hr) (g[r][c]) (List.getElem_mem hc)
  simpa [List.getD_eq_getElem?_getD, hc] using this

/-- C07/C10: a fresh instance is consistent -/
theorem reset_consistent (cfg : Cfg) (s : State) (h : InstanceOK cfg s) : Consistent cfg s := by
  obtain ⟨hs, hall, h0, hm⟩ := h
  have hcell : ∀ r, r < nrows s → ∀ c, c < ncols s → cell s r c = -1 := by
    intro r hr c hc
    have h1 := nrows_eq s _ _ hs
    have h2 := ncols_eq s _ _ hs (by omega)
    have h3 := rowLen_eq s _ _ hs r (by omega)
    have := all_get (fun v => v == -1) s.board 0 hall r c (by unfold nrows at h1 hr; omega) (by omega)
    simpa [cell] using this
  refine ⟨hs, hm, fun r hr c hc => Or.inl (hcell r hr c hc), fun r hr c hc => Or.inl (hcell r hr c hc), ?_⟩
  rw [h0]
  have : explored s.board = 0 := by
    unfold explored Grid.count
    rw [← List.countP_eq_length_filter, List.countP_eq_zero]
    intro a ha
    unfold Grid.all at hall
    simp only [List.all_eq_true] at hall
    obtain ⟨row, hrow, harow⟩ := List.mem_flatten.1 ha
    have := hall row hrow a harow
    simp at this
    subst this
    decide
  rw [this]; rfl

/-! ### C08 -/

/-- a legal move on a safe square reveals one more square and pays `rEmpty`; on a mine it ends the
episode and pays `rMine` -/
theorem reward_telescopes (cfg : Cfg) (s : State) (nr nc : Nat) (hs : Grid.shaped s.board nr nc = true)
    (hms : ∀ m ∈ s.mines, 0 ≤ m) (r c : Nat) (hr : r < nr) (hc : c < nc) (hl : legal s r c) :
    explored (step cfg s r c).1.board = explored s.board + 1 ∧
    (isMine s r c = false → (step cfg s r c).2.reward = [cfg.rEmpty]) ∧
    (isMine s r c = true → (step cfg s r c).2.reward = [cfg.rMine] ∧ (step cfg s r c).2.stepType = .last) := by
  rw [step_reward cfg s nr nc hs hms r c hr hc, step_state cfg s nr nc hs hms r c hr hc]
  refine ⟨explored_reveal s nr nc hs r c hr hc hl.2.2, ?_, ?_⟩
  · intro h; unfold rewardSpec; simp [hl, h]
  · intro h
    refine ⟨by unfold rewardSpec; simp [hl, h], ?_⟩
    exact (step_last_iff cfg s nr nc hs hms r c hr hc).2 (Or.inr (Or.inl h))

theorem mem_coords (nr nc r c : Nat) : (r, c) ∈ Grid.coords nr nc ↔ r < nr ∧ c < nc := by
  unfold Grid.coords
  simp only [List.mem_flatMap, List.mem_map, List.mem_range, Prod.mk.injEq]
  constructor
  · rintro ⟨a, ha, b, hb, rfl, rfl⟩; exact ⟨ha, hb⟩
  · rintro ⟨h1, h2⟩; exact ⟨r, h1, c, h2, rfl, rfl⟩

theorem nodup_coords (nr nc : Nat) : (Grid.coords nr nc).Nodup := by
  unfold Grid.coords List.Nodup
  rw [List.pairwise_flatMap]
  constructor
  · intro r _
    rw [List.pairwise_map]
    exact List.Pairwise.imp (fun h e => h (by injection e)) (List.nodup_range (n := nc))
  · refine List.Pairwise.imp ?_ (List.nodup_range (n := nr))
    intro r1 r2 hne x hx y hy e
    simp only [List.mem_map, List.mem_range] at hx hy
    obtain ⟨c1, _, rfl⟩ := hx
    obtain ⟨c2, _, rfl⟩ := hy
    exact hne (by injection e)

theorem countP_update {α} [DecidableEq α] (l : List α) (hnd : l.Nodup) (x : α) (hx : x ∈ l) (p q : α → Bool)
    (hpq : ∀ y, y ≠ x → q y = p y) (hp : p x = false) :
    l.countP q = l.countP p + (if q x then 1 else 0) := by
  induction l with
  | nil => simp at hx
  | cons a l ih =>
    rw [List.nodup_cons] at hnd
    by_cases ha : a = x
    · subst ha
      have : l.countP q = l.countP p := by
        apply List.countP_congr
        intro y hy
        have : y ≠ a := fun e => hnd.1 (e ▸ hy)
        rw [hpq y this]
      simp only [List.countP_cons, this, hp]
      simp
    · have hx' : x ∈ l := by
        rcases List.mem_cons.1 hx with h | h
        · exact absurd h.symm ha
        · exact h
      have := ih hnd.2 hx'
      simp only [List.countP_cons, this, hpq a ha]
      omega

/-- C08: a legal move adds one safe revealed square (safe square) or one revealed mine (mined square);
the counters from which `objective` is computed change exactly as the reward says -/
theorem counters_step (cfg : Cfg) (s : State) (nr nc : Nat) (hs : Grid.shaped s.board nr nc = true)
    (hms : ∀ m ∈ s.mines, 0 ≤ m) (r c : Nat) (hr : r < nr) (hc : c < nc) (hl : legal s r c) :
    safeRevealed (step cfg s r c).1 = safeRevealed s + (if isMine s r c then 0 else 1) ∧
    minesRevealed (step cfg s r c).1 = minesRevealed s + (if isMine s r c then 1 else 0) := by
  have h1 := nrows_eq s nr nc hs
  have h2 := ncols_eq s nr nc hs (by omega)
  have h3 := rowLen_eq s nr nc hs r hr
  rw [step_state cfg s nr nc hs hms r c hr hc]
  have hs' : Grid.shaped (reveal s r c) nr nc = true := Grid.shaped_set _ _ _ _ _ _ hs
  let s' : State := { board := reveal s r c, stepCount := s.stepCount + 1, mines := s.mines }
  have e1 : nrows s' = nrows s := by rw [nrows_eq s' _ _ hs', h1]
  have e2 : ncols s' = ncols s := by rw [ncols_eq s' _ _ hs' (by omega), h2]
  have hcell : ∀ r' c', cell s' r' c' = if r' = r ∧ c' = c then (adjMines s r c : Int) else cell s r' c' := by
    intro r' c'
    exact Grid.get_set s.board 0 r c _ r' c' (by unfold nrows at h1; omega) (by omega)
  have hmem : (r, c) ∈ Grid.coords (nrows s) (ncols s) := (mem_coords _ _ _ _).2 ⟨by omega, by omega⟩
  have hnd := nodup_coords (nrows s) (ncols s)
  have hempty : cell s r c = -1 := hl.2.2
  constructor
  · show safeRevealed s' = _
    unfold safeRevealed
    rw [e1, e2, ← List.countP_eq_length_filter, ← List.countP_eq_length_filter,
        countP_update _ hnd (r, c) hmem (fun p => decide (0 ≤ cell s p.1 p.2) && !(isMine s p.1 p.2))
          (fun p => decide (0 ≤ cell s' p.1 p.2) && !(isMine s' p.1 p.2))]
    · simp only [hcell, isMine_congr s s' e2 rfl]
      cases isMine s r c <;> simp
    · rintro ⟨r', c'⟩ hne
      have : ¬ (r' = r ∧ c' = c) := fun h => hne (by rw [h.1, h.2])
      simp only [hcell, isMine_congr s s' e2 rfl, if_neg this]
    · simp [hempty]
  · show minesRevealed s' = _
    unfold minesRevealed
    rw [e1, e2, ← List.countP_eq_length_filter, ← List.countP_eq_length_filter,
        countP_update _ hnd (r, c) hmem (fun p => decide (0 ≤ cell s p.1 p.2) && (isMine s p.1 p.2))
          (fun p => decide (0 ≤ cell s' p.1 p.2) && (isMine s' p.1 p.2))]
    · simp only [hcell, isMine_congr s s' e2 rfl]
      cases isMine s r c <;> simp
    · rintro ⟨r', c'⟩ hne
      have : ¬ (r' = r ∧ c' = c) := fun h => hne (by rw [h.1, h.2])
      simp only [hcell, isMine_congr s s' e2 rfl, if_neg this]
    · simp [hempty]

end Minesweeper
