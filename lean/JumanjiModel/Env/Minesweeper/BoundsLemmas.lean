/- Minesweeper — C01: proofs of the observation bounds.  The bound of `step_count` is a counting argument: explored
   squares are not mines (while the episode runs), the mines are `num_mines` distinct squares of the board, hence
   explored + num_mines ≤ rows * cols. -/
import JumanjiModel.Env.Minesweeper.Bounds
import JumanjiModel.Env.Minesweeper.Lemmas
namespace Minesweeper
open Jm Jx PzB

/-! ### a well-shaped grid is the table of its cells -/

theorem shaped_eq_tab {α : Type} (g : Grid α) (d : α) (R C : Nat) (h : Grid.shaped g R C = true) :
    g = (List.range R).map (fun r => (List.range C).map (fun c => Grid.get g d r c)) := by
  rw [Grid.shaped_iff] at h
  apply List.ext_getElem
  · simp [h.1]
  · intro i h1 h2
    have hi : i < R := by omega
    have hrl := h.2 i hi
    unfold Grid.rowLen at hrl
    simp only [List.getD_eq_getElem?_getD, List.getElem?_eq_getElem h1, Option.getD_some] at hrl
    simp only [List.getElem_map, List.getElem_range]
    apply List.ext_getElem
    · simp [hrl]
    · intro j hj1 hj2
      simp [Grid.get, List.getD_eq_getElem?_getD, h1, hj1]

theorem flatten_eq_coords_map {α : Type} (g : Grid α) (d : α) (R C : Nat) (h : Grid.shaped g R C = true) :
    List.flatten g = (Grid.coords R C).map (fun q => Grid.get g d q.1 q.2) := by
  conv => lhs; rw [shaped_eq_tab g d R C h]
  simp [Grid.coords, List.map_flatMap, List.flatMap_def, Function.comp_def]

theorem coords_length (R C : Nat) : (Grid.coords R C).length = R * C := by
  unfold Grid.coords
  induction R with
  | zero => simp
  | succ R ih =>
    rw [List.range_succ, List.flatMap_append, List.length_append, ih]
    simp [Nat.succ_mul]

/-! ### counting: explored squares + mines ≤ squares -/

/-- the square of a mine location -/
def mineSquare (C : Nat) (m : Int) : Nat × Nat := (m.toNat / C, m.toNat % C)

theorem explored_add_mines_le (cfg : Cfg) (s : State)
    (hs : Grid.shaped s.board cfg.numRows cfg.numCols = true) (hmo : MinesOK cfg s) (hnm : NoMineExplored s) :
    explored s.board + cfg.numMines ≤ cfg.numRows * cfg.numCols := by
  obtain ⟨hlen, hnd, hrange⟩ := hmo
  let R := cfg.numRows
  let C := cfg.numCols
  let L := Grid.coords R C
  let f : Nat × Nat → Int := fun q => Grid.get s.board 0 q.1 q.2
  let p : Int → Bool := fun v => decide (0 ≤ v)
  -- explored squares, counted over the coordinates
  have hexp : explored s.board = L.countP (fun q => p (f q)) := by
    unfold explored Grid.count
    rw [flatten_eq_coords_map s.board 0 R C hs,
      ← List.countP_eq_length_filter, List.countP_map]
    rfl
  have hsplit := List.length_eq_countP_add_countP (fun q => p (f q)) (l := L)
  rw [coords_length] at hsplit
  -- the mines are distinct unexplored squares
  have hsub : ∀ q ∈ s.mines.map (mineSquare C), q ∈ L.filter (fun q => ! p (f q)) := by
    intro q hq
    simp only [List.mem_map] at hq
    obtain ⟨m, hm, rfl⟩ := hq
    obtain ⟨hm0, hm1⟩ := hrange m hm
    have hlt : m.toNat < R * C := by
      have : ((m.toNat : Nat) : Int) < ((R * C : Nat) : Int) := by rw [Int.toNat_of_nonneg hm0]; exact hm1
      omega
    have hC : 0 < C := by
      rcases Nat.eq_zero_or_pos C with h | h
      · rw [h] at hlt; simp at hlt
      · exact h
    have hR : 0 < R := by
      rcases Nat.eq_zero_or_pos R with h | h
      · rw [h] at hlt; simp at hlt
      · exact h
    have hr : m.toNat / C < R := (Nat.div_lt_iff_lt_mul hC).mpr hlt
    have hc : m.toNat % C < C := Nat.mod_lt _ hC
    have h1 := nrows_eq s R C hs
    have h2 := ncols_eq s R C hs hR
    simp only [List.mem_filter, mineSquare]
    refine ⟨(mem_coords R C _ _).mpr ⟨hr, hc⟩, ?_⟩
    have hmine : isMine s (m.toNat / C) (m.toNat % C) = true := by
      unfold isMine
      rw [h2]
      have e : ((m.toNat / C * C + m.toNat % C : Nat) : Int) = m := by
        rw [Nat.mul_comm, Nat.div_add_mod, Int.toNat_of_nonneg hm0]
      rw [e]
      simpa using hm
    rcases hnm (m.toNat / C) (by rw [h1]; exact hr) (m.toNat % C) (by rw [h2]; exact hc) with h | h
    · have : f (m.toNat / C, m.toNat % C) = -1 := h
      simp [p, this]
    · rw [hmine] at h; cases h
  have hnd' : (s.mines.map (mineSquare C)).Nodup := by
    unfold List.Nodup
    rw [List.pairwise_map]
    refine List.Pairwise.imp_of_mem ?_ hnd
    intro a b ha hb hne e
    apply hne
    obtain ⟨ha0, ha1⟩ := hrange a ha
    obtain ⟨hb0, _⟩ := hrange b hb
    simp only [mineSquare, Prod.mk.injEq] at e
    have hab : a.toNat = b.toNat := by
      rw [← Nat.div_add_mod a.toNat C, ← Nat.div_add_mod b.toNat C, e.1, e.2]
    have := congrArg (fun (n : Nat) => (n : Int)) hab
    simp only [Int.toNat_of_nonneg ha0, Int.toNat_of_nonneg hb0] at this
    exact this
  have hle := List.Nodup.length_le_of_subset hnd' hsub
  rw [List.length_map, hlen, ← List.countP_eq_length_filter] at hle
  have : L.countP (fun q => ! p (f q)) = L.countP (fun a => ¬ (p (f a)) = true) := by
    congr 1; funext q; simp
  rw [hexp]
  rw [this] at hle
  show L.countP (fun q => p (f q)) + cfg.numMines ≤ R * C
  omega

/-! ### the board -/

theorem adjMines_le (s : State) (r c : Nat) : adjMines s r c ≤ 8 := by
  unfold adjMines
  exact Nat.le_trans (List.length_filter_le _ _) (by decide)

/-- every cell of a board satisfying `BoardOK` is −1 or a count 0..8 -/
theorem board_in_range (s : State) (R C : Nat) (hs : Grid.shaped s.board R C = true) (hb : BoardOK s) :
    GridAll (fun v => -1 ≤ v ∧ v ≤ 8) s.board := by
  intro row hrow v hv
  obtain ⟨r, hr1, hr2⟩ := List.getElem_of_mem hrow
  obtain ⟨c, hc1, hc2⟩ := List.getElem_of_mem hv
  have h1 := nrows_eq s R C hs
  have hR : 0 < R := by unfold nrows at h1; omega
  have h2 := ncols_eq s R C hs hR
  have hrow' : row.length = C := by
    have := rowLen_eq s R C hs r (by unfold nrows at h1; omega)
    unfold Grid.rowLen at this
    simpa [List.getD_eq_getElem?_getD, List.getElem?_eq_getElem hr1, hr2] using this
  have hcell : cell s r c = v := by
    simp [cell, Grid.get, List.getD_eq_getElem?_getD, List.getElem?_eq_getElem hr1, hr2,
      List.getElem?_eq_getElem hc1, hc2]
  have := hb r (by unfold nrows; exact hr1) c (by rw [h2, ← hrow']; exact hc1)
  rw [hcell] at this
  have hle := adjMines_le s r c
  omega

theorem step_obs (cfg : Cfg) (s : State) (r c : Int) :
    (step cfg s r c).2.obs =
      observeL1 cfg { board := Grid.setWD s.board r c (countAdjacentMines s r c), stepCount := s.stepCount + 1,
                      mines := s.mines } := by
  simp [step]

/-- the observation of any consistent state is within the bounds (in particular `0 ≤ rows*cols − num_mines`) -/
theorem observe_in_bounds (cfg : Cfg) (s : State) (hcs : Consistent cfg s) :
    ObsInBounds (obsBounds cfg) (obsLeaves (observeL1 cfg s)) := by
  obtain ⟨hs, hmo, hb, hnm, hsc⟩ := hcs
  have hcount := explored_add_mines_le cfg s hs hmo hnm
  apply obs_in_bounds cfg _ (board_in_range s _ _ hs hb) rfl
  show 0 ≤ s.stepCount ∧ s.stepCount ≤ _
  rw [hsc]
  omega

theorem reset_obs_in_bounds (cfg : Cfg) (s : State) (h : InstanceOK cfg s) :
    ObsInBounds (obsBounds cfg) (obsLeaves (resetTimeStep cfg s).obs) :=
  observe_in_bounds cfg s (reset_consistent cfg s h)

/-- every step from a consistent, not yet solved state with an action of the action space — legal or not, hitting a
mine or not, terminal or not -/
theorem step_obs_in_bounds (cfg : Cfg) (s : State) (hcs : Consistent cfg s) (r c : Nat)
    (hr : r < cfg.numRows) (hc : c < cfg.numCols) (hns : isSolved s = false) :
    ObsInBounds (obsBounds cfg) (obsLeaves (step cfg s r c).2.obs) := by
  obtain ⟨hs, hmo, hb, hnm, hsc⟩ := hcs
  have hms := mines_nonneg cfg s hmo
  have h1 := nrows_eq s _ _ hs
  have h2 := ncols_eq s _ _ hs (by omega)
  have hcount := explored_add_mines_le cfg s hs hmo hnm
  rw [step_obs]
  apply obs_in_bounds cfg _ _ rfl
  · show 0 ≤ s.stepCount + 1 ∧ s.stepCount + 1 ≤ _
    rw [hsc]
    have hne : ((explored s.board : Nat) : Int) ≠ ((cfg.numRows * cfg.numCols : Nat) : Int) - (cfg.numMines : Int) := by
      intro e
      have : isSolved s = true := by
        unfold isSolved
        rw [h1, h2, hmo.1]
        simpa using e
      rw [this] at hns; cases hns
    omega
  · show GridAll _ (Grid.setWD s.board (r : Int) (c : Int) (countAdjacentMines s r c))
    apply gridAll_gridSetWD _ _ (board_in_range s _ _ hs hb)
    rw [count_eq s hms r c (by omega) (by omega)]
    have := adjMines_le s r c
    omega

end Minesweeper
