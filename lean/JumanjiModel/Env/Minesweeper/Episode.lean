/-
Minesweeper, whole episodes (C08) and the transliterated generator (C10).

`play cfg s as` runs the L1 `step` along the action list `as` and stops at the first LAST time step, as an
episode of the real environment does.  Along ANY action sequence from ANY consistent state
  return + rEmpty · safeRevealed(start) = rEmpty · safeRevealed(final) + terminal term,
where the terminal term is `rMine` when the episode ended by revealing a mine, `rInvalid` when it ended by an
invalid action (an already revealed square) and 0 otherwise (board cleared, or the action list ran out).
-/
import JumanjiModel.Env.Minesweeper.Lemmas
namespace Minesweeper
open Jm Jx

theorem safeRevealed_congr (s s' : State) (hb : s'.board = s.board) (hm : s'.mines = s.mines) :
    safeRevealed s' = safeRevealed s := by
  unfold safeRevealed nrows ncols cell isMine ncols; rw [hb, hm]

theorem minesRevealed_congr (s s' : State) (hb : s'.board = s.board) (hm : s'.mines = s.mines) :
    minesRevealed s' = minesRevealed s := by
  unfold minesRevealed nrows ncols cell isMine ncols; rw [hb, hm]

/-- L1 termination test, no hypotheses -/
theorem step_last_iff_L1 (cfg : Cfg) (s : State) (r c : Int) :
    (step cfg s r c).2.stepType = .last ↔
      (!(isValid s r c) || exploredMine s r c || isSolved (step cfg s r c).1) = true := by
  unfold step condLast termination transition
  simp only []
  split <;> simp_all

private theorem sum_single (x : Rat) : [x].sum = x := by
  simp [List.sum_cons, List.sum_nil, Rat.add_zero]

/-- one step from a consistent state, in-spec action: what it pays and what it does to the counters -/
theorem step_cases (cfg : Cfg) (s : State) (hcs : Consistent cfg s) (r c : Nat)
    (hr : r < cfg.numRows) (hc : c < cfg.numCols) :
    (¬ legal s r c → (step cfg s r c).2.stepType = .last ∧ (step cfg s r c).2.reward.sum = cfg.rInvalid ∧
        safeRevealed (step cfg s r c).1 = safeRevealed s ∧ minesRevealed (step cfg s r c).1 = minesRevealed s) ∧
    (legal s r c → isMine s r c = true → (step cfg s r c).2.stepType = .last ∧
        (step cfg s r c).2.reward.sum = cfg.rMine ∧ safeRevealed (step cfg s r c).1 = safeRevealed s ∧
        minesRevealed (step cfg s r c).1 = minesRevealed s + 1) ∧
    (legal s r c → isMine s r c = false → (step cfg s r c).2.reward.sum = cfg.rEmpty ∧
        safeRevealed (step cfg s r c).1 = safeRevealed s + 1 ∧
        minesRevealed (step cfg s r c).1 = minesRevealed s ∧
        ((step cfg s r c).2.stepType = .last → isSolved (step cfg s r c).1 = true)) := by
  obtain ⟨hs, hmo, hb, hnm, hsc⟩ := hcs
  have hms := mines_nonneg cfg s hmo
  have h1 := nrows_eq s _ _ hs
  have h2 := ncols_eq s _ _ hs (by omega)
  refine ⟨?_, ?_, ?_⟩
  · intro hl
    obtain ⟨e1, e2, e3⟩ := illegal_step cfg s _ _ hs hms r c hr hc hl
    have e4 := illegal_board cfg s _ _ hs hms hb r c hr hc hl
    exact ⟨e1, by rw [e2, sum_single], safeRevealed_congr _ _ e4 e3, minesRevealed_congr _ _ e4 e3⟩
  · intro hl hm
    obtain ⟨_, _, e3⟩ := reward_telescopes cfg s _ _ hs hms r c hr hc hl
    obtain ⟨e5, e6⟩ := counters_step cfg s _ _ hs hms r c hr hc hl
    obtain ⟨e7, e8⟩ := e3 hm
    refine ⟨e8, by rw [e7, sum_single], ?_, ?_⟩
    · rw [e5, hm]; rfl
    · rw [e6, hm]; rfl
  · intro hl hm
    obtain ⟨_, e2, _⟩ := reward_telescopes cfg s _ _ hs hms r c hr hc hl
    obtain ⟨e5, e6⟩ := counters_step cfg s _ _ hs hms r c hr hc hl
    refine ⟨by rw [e2 hm, sum_single], ?_, ?_, ?_⟩
    · rw [e5, hm]; rfl
    · rw [e6, hm]; rfl
    · intro hlast
      have hv : isValid s r c = true := (isValid_iff_legal s _ _ hs r c hr hc).2 hl
      have hx : exploredMine s r c = false := by
        rw [exploredMine_eq s hms r c (by omega) (by omega)]; exact hm
      have := (step_last_iff_L1 cfg s r c).1 hlast
      simpa [hv, hx] using this

/-- C08, whole play from ANY consistent state along ANY in-spec action list (the play stops at the first LAST
step): return + rEmpty · (safe squares revealed at the start) = rEmpty · (safe squares revealed at the end) +
terminal term -/
theorem play_return (cfg : Cfg) (s : State) (hcs : Consistent cfg s) (as : List (Nat × Nat))
    (hin : ∀ a ∈ as, a.1 < cfg.numRows ∧ a.2 < cfg.numCols) :
    (play cfg s as).ret + cfg.rEmpty * (safeRevealed s : Rat) =
      cfg.rEmpty * (safeRevealed (play cfg s as).final : Rat) + terminalTerm cfg (play cfg s as).ending := by
  induction as generalizing s with
  | nil => simp [play, terminalTerm, Rat.add_zero, Rat.zero_add]
  | cons a as ih =>
    obtain ⟨hr, hc⟩ := hin a (List.mem_cons_self ..)
    obtain ⟨c1, c2, c3⟩ := step_cases cfg s hcs a.1 a.2 hr hc
    by_cases hlast : (step cfg s a.1 a.2).2.stepType = .last
    · simp only [play, hlast, if_true]
      by_cases hl : legal s a.1 a.2
      · simp only [hl, if_true]
        cases hm : isMine s a.1 a.2
        · obtain ⟨e1, e2, _, _⟩ := c3 hl hm
          simp only [Bool.false_eq_true, if_false, terminalTerm]
          rw [e1, e2, Rat.natCast_add]
          generalize ((safeRevealed s : Nat) : Rat) = x
          grind
        · obtain ⟨_, e1, e2, _⟩ := c2 hl hm
          simp only [if_true, terminalTerm]
          rw [e1, e2]
          exact Rat.add_comm _ _
      · obtain ⟨_, e1, e2, _⟩ := c1 hl
        simp only [hl, if_false, terminalTerm]
        rw [e1, e2]
        exact Rat.add_comm _ _
    · simp only [play, hlast, if_false]
      have hl : legal s a.1 a.2 := by
        apply Classical.byContradiction
        intro h; exact hlast (c1 h).1
      have hm : isMine s a.1 a.2 = false := by
        cases hm : isMine s a.1 a.2
        · rfl
        · exact absurd (c2 hl hm).1 hlast
      obtain ⟨e1, e2, _, _⟩ := c3 hl hm
      have hcs' := step_consistent cfg s hcs a.1 a.2 hr hc hlast
      have := ih _ hcs' (fun b hb => hin b (List.mem_cons_of_mem _ hb))
      rw [e2, Rat.natCast_add] at this
      rw [e1]
      generalize ((safeRevealed s : Nat) : Rat) = x at *
      generalize (play cfg (step cfg s a.1 a.2).1 as).ret = y at *
      generalize ((safeRevealed (play cfg (step cfg s a.1 a.2).1 as).final : Nat) : Rat) = z at *
      generalize terminalTerm cfg (play cfg (step cfg s a.1 a.2).1 as).ending = w at *
      grind

/-- while the episode runs no revealed square is a mine -/
theorem minesRevealed_zero (cfg : Cfg) (s : State) (hcs : Consistent cfg s) : minesRevealed s = 0 := by
  unfold minesRevealed
  rw [List.length_eq_zero_iff, List.filter_eq_nil_iff]
  rintro ⟨r, c⟩ hp
  obtain ⟨hr, hc⟩ := (mem_coords _ _ _ _).1 hp
  rcases hcs.2.2.2.1 r hr c hc with h | h <;> simp [h]

/-- how the play ended: `.cleared` means the final board is solved; exactly one mine is revealed when it ended on
a mine and none otherwise -/
theorem play_ending (cfg : Cfg) (s : State) (hcs : Consistent cfg s) (as : List (Nat × Nat))
    (hin : ∀ a ∈ as, a.1 < cfg.numRows ∧ a.2 < cfg.numCols) :
    ((play cfg s as).ending = .cleared → isSolved (play cfg s as).final = true) ∧
    minesRevealed (play cfg s as).final = (if (play cfg s as).ending = .mine then 1 else 0) := by
  induction as generalizing s with
  | nil => simp [play, minesRevealed_zero cfg s hcs]
  | cons a as ih =>
    obtain ⟨hr, hc⟩ := hin a (List.mem_cons_self ..)
    obtain ⟨c1, c2, c3⟩ := step_cases cfg s hcs a.1 a.2 hr hc
    have h0 := minesRevealed_zero cfg s hcs
    by_cases hlast : (step cfg s a.1 a.2).2.stepType = .last
    · simp only [play, hlast, if_true]
      by_cases hl : legal s a.1 a.2
      · cases hm : isMine s a.1 a.2
        · obtain ⟨_, _, e3, e4⟩ := c3 hl hm
          simp [hl, e3, h0, e4 hlast]
        · obtain ⟨_, _, _, e4⟩ := c2 hl hm
          simp [hl, e4, h0]
      · obtain ⟨_, _, _, e4⟩ := c1 hl
        simp [hl, e4, h0]
    · simp only [play, hlast, if_false]
      exact ih _ (step_consistent cfg s hcs a.1 a.2 hr hc hlast) (fun b hb => hin b (List.mem_cons_of_mem _ hb))

/-- a play that has not met a LAST step has consumed all its actions, each revealing one safe square -/
theorem play_running (cfg : Cfg) (s : State) (hcs : Consistent cfg s) (as : List (Nat × Nat))
    (hin : ∀ a ∈ as, a.1 < cfg.numRows ∧ a.2 < cfg.numCols) (hrun : (play cfg s as).ending = .running) :
    safeRevealed (play cfg s as).final = safeRevealed s + as.length ∧ Consistent cfg (play cfg s as).final := by
  induction as generalizing s with
  | nil => exact ⟨rfl, hcs⟩
  | cons a as ih =>
    obtain ⟨hr, hc⟩ := hin a (List.mem_cons_self ..)
    obtain ⟨c1, c2, c3⟩ := step_cases cfg s hcs a.1 a.2 hr hc
    by_cases hlast : (step cfg s a.1 a.2).2.stepType = .last
    · simp only [play, hlast, if_true] at hrun
      by_cases hl : legal s a.1 a.2
      · cases hm : isMine s a.1 a.2 <;> simp [hl, hm] at hrun
      · simp [hl] at hrun
    · simp only [play, hlast, if_false] at hrun ⊢
      have hl : legal s a.1 a.2 := by
        apply Classical.byContradiction
        intro h; exact hlast (c1 h).1
      have hm : isMine s a.1 a.2 = false := by
        cases hm : isMine s a.1 a.2
        · rfl
        · exact absurd (c2 hl hm).1 hlast
      obtain ⟨_, e2, _, _⟩ := c3 hl hm
      obtain ⟨i1, i2⟩ := ih _ (step_consistent cfg s hcs a.1 a.2 hr hc hlast)
        (fun b hb => hin b (List.mem_cons_of_mem _ hb)) hrun
      refine ⟨?_, i2⟩
      rw [i1, e2, List.length_cons]; omega

/-! ### from a fresh instance -/

theorem instance_cells (cfg : Cfg) (s : State) (h : InstanceOK cfg s) :
    ∀ r, r < nrows s → ∀ c, c < ncols s → cell s r c = -1 := by
  obtain ⟨hs, hall, _, _⟩ := h
  intro r hr c hc
  have h1 := nrows_eq s _ _ hs
  have h2 := ncols_eq s _ _ hs (by omega)
  have h3 := rowLen_eq s _ _ hs r (by omega)
  have := all_get (fun v => v == -1) s.board 0 hall r c (by unfold nrows at h1 hr; omega) (by omega)
  simpa [cell] using this

theorem safeRevealed_zero (cfg : Cfg) (s : State) (h : InstanceOK cfg s) : safeRevealed s = 0 := by
  unfold safeRevealed
  rw [List.length_eq_zero_iff, List.filter_eq_nil_iff]
  rintro ⟨r, c⟩ hp
  obtain ⟨hr, hc⟩ := (mem_coords _ _ _ _).1 hp
  simp [instance_cells cfg s h r hr c hc]

/-- C08, whole episode from a generated instance: return = rEmpty · (safe squares revealed) + terminal term
= the documented objective recomputed from the final state (+ the invalid-action reward if it ended so) -/
theorem episode_return (cfg : Cfg) (s : State) (h : InstanceOK cfg s) (as : List (Nat × Nat))
    (hin : ∀ a ∈ as, a.1 < cfg.numRows ∧ a.2 < cfg.numCols) :
    (play cfg s as).ret =
      cfg.rEmpty * (safeRevealed (play cfg s as).final : Rat) + terminalTerm cfg (play cfg s as).ending ∧
    (play cfg s as).ret = objective cfg (play cfg s as).final +
      (if (play cfg s as).ending = .invalid then cfg.rInvalid else 0) := by
  have hcs := reset_consistent cfg s h
  have h1 := play_return cfg s hcs as hin
  rw [safeRevealed_zero cfg s h] at h1
  have h1' : (play cfg s as).ret =
      cfg.rEmpty * (safeRevealed (play cfg s as).final : Rat) + terminalTerm cfg (play cfg s as).ending := by
    rw [← h1]; simp [Rat.mul_zero, Rat.add_zero]
  refine ⟨h1', ?_⟩
  rw [h1']
  unfold objective
  rw [(play_ending cfg s hcs as hin).2]
  cases (play cfg s as).ending <;>
    simp [terminalTerm, Rat.mul_zero, Rat.add_zero, Rat.mul_one]

/-! ### C10: the transliterated generator -/

theorem nodup_map_of_inj_on {α β} (f : α → β) (l : List α) (h : l.Nodup)
    (hf : ∀ x ∈ l, ∀ y ∈ l, f x = f y → x = y) : (l.map f).Nodup := by
  unfold List.Nodup at *
  rw [List.pairwise_map]
  exact List.Pairwise.imp_of_mem (fun hx hy hne e => hne (hf _ hx _ hy e)) h

theorem mk_shaped {α} (nr nc : Nat) (v : α) : Grid.shaped (Grid.mk nr nc v) nr nc = true := by
  unfold Grid.shaped Grid.mk
  simp only [List.length_replicate, beq_self_eq_true, Bool.true_and, List.all_eq_true]
  intro r hr
  rw [(List.mem_replicate.1 hr).2]; simp

theorem mk_all (nr nc : Nat) (v : Int) : Grid.all (fun x => x == v) (Grid.mk nr nc v) = true := by
  unfold Grid.all Grid.mk
  simp only [List.all_eq_true]
  intro r hr x hx
  rw [(List.mem_replicate.1 hr).2] at hx
  rw [(List.mem_replicate.1 hx).2]; simp

/-- C10: for EVERY valid draw (`num_mines` distinct flat indices on the board) the generated state is a fresh
instance: board `rows × cols` entirely unexplored, step count 0, mines exactly as drawn -/
theorem generate_instanceOK (cfg : Cfg) (d : List Nat) (hd : validDraw cfg d) : InstanceOK cfg (generate cfg d) := by
  obtain ⟨h1, h2, h3⟩ := hd
  refine ⟨mk_shaped _ _ _, mk_all _ _ _, rfl, ?_, ?_, ?_⟩
  · show (d.map Int.ofNat).length = _
    rw [List.length_map]; exact h1
  · show (d.map Int.ofNat).Nodup
    exact nodup_map_of_inj_on _ _ h2 (fun x _ y _ e => Int.ofNat.inj e)
  · intro m hm
    obtain ⟨k, hk, rfl⟩ := List.mem_map.1 hm
    have := h3 k hk
    constructor
    · exact Int.natCast_nonneg k
    · show (k : Int) < _
      omega

/-- … and every fresh instance is the generator's output for a valid draw, namely the one read off its mine
table: `InstanceOK` characterises the range of `generate` exactly -/
theorem instanceOK_is_generated (cfg : Cfg) (s : State) (h : InstanceOK cfg s) :
    validDraw cfg (drawOf s) ∧ generate cfg (drawOf s) = s := by
  obtain ⟨hs, hall, h0, hl, hnd, hb⟩ := h
  have hmap : (s.mines.map Int.toNat).map Int.ofNat = s.mines := by
    rw [List.map_map]
    conv => rhs; rw [← List.map_id s.mines]
    apply List.map_congr_left
    intro m hm
    have := (hb m hm).1
    simp only [Function.comp, id]
    show ((m.toNat : Nat) : Int) = m
    omega
  refine ⟨⟨?_, ?_, ?_⟩, ?_⟩
  · unfold drawOf; rw [List.length_map]; exact hl
  · unfold drawOf
    apply nodup_map_of_inj_on _ _ hnd
    intro x hx y hy e
    have := (hb x hx).1; have := (hb y hy).1
    omega
  · intro m hm
    unfold drawOf at hm
    obtain ⟨k, hk, rfl⟩ := List.mem_map.1 hm
    have := hb k hk
    omega
  · have hboard : s.board = Grid.mk cfg.numRows cfg.numCols (-1) := by
      unfold Grid.mk
      unfold Grid.shaped at hs
      unfold Grid.all at hall
      simp only [Bool.and_eq_true, beq_iff_eq, List.all_eq_true] at hs hall
      rw [List.eq_replicate_iff]
      refine ⟨hs.1, fun row hrow => ?_⟩
      rw [List.eq_replicate_iff]
      exact ⟨hs.2 row hrow, fun x hx => by simpa using hall row hrow x hx⟩
    cases s with
    | mk board sc mines =>
      simp only at hboard h0 hmap
      simp only [generate, drawOf, hboard, h0, hmap]

end Minesweeper
