/-
Minesweeper (jumanji/environments/logic/minesweeper/{env,utils,reward,done,generator,constants}.py).
Import-free.

L1 = transliteration of `step`, `_state_to_observation`, `utils.get_mined_board`, `explored_mine`,
`count_adjacent_mines` (zeros.at[mines].set(1), reshape, `jnp.pad` by `PATCH_SIZE-1`, two
`dynamic_slice_in_dim` of size 3, minus the centre), `is_valid_action`, `is_solved`,
`DefaultRewardFn`, `DefaultDoneFn`.  Actions are pairs of `Int` with the JAX corner semantics
(gather = wrap+clamp, scatter = wrap+drop, dynamic_slice = wrap+clamp of the start index).
L2 = the rules from the docstrings / docs/environments/minesweeper.md: `legal` (square not yet
explored), `isMine`, `adjMines` (mines among the 8 neighbours), `Consistent`, `observe`, `objective`.
-/
import JumanjiModel.Prim.Idx
import JumanjiModel.Prim.Grid
import JumanjiModel.Core.TimeStep
namespace Minesweeper
open Jm Jx

/-- constructor arguments: generator sizes and the three rewards of `DefaultRewardFn` -/
structure Cfg where
  numRows : Nat
  numCols : Nat
  numMines : Nat
  rEmpty : Rat
  rMine : Rat
  rInvalid : Rat
  deriving Repr

structure State where
  board : Grid Int
  stepCount : Int
  mines : List Int          -- flat_mine_locations
  deriving Repr, DecidableEq

structure Obs where
  board : Grid Int
  mask : Grid Bool
  numMines : Int
  stepCount : Int
  deriving Repr, DecidableEq

/-! ### L1 -/

/-- `board.shape[-2]`, `board.shape[-1]` -/
def nrows (s : State) : Nat := s.board.length
def ncols (s : State) : Nat := Grid.cols s.board

/-- `get_mined_board`: `zeros(rows*cols).at[flat_mine_locations].set(IS_MINE)` -/
def minedFlat (s : State) : List Int :=
  s.mines.foldl (fun b m => Jx.setWD b m 1) (List.replicate (ncols s * nrows s) 0)

/-- `xs.reshape(nr, nc)` of a flat list -/
def reshape {α} (xs : List α) (nr nc : Nat) : Grid α :=
  (List.range nr).map (fun r => (xs.drop (r * nc)).take nc)

/-- `explored_mine`: `mined_board[col + row * board.shape[-1]] == IS_MINE` -/
def exploredMine (s : State) (r c : Int) : Bool :=
  Jx.getWC (minedFlat s) 0 (c + r * (ncols s : Int)) == 1

/-- start index of `lax.dynamic_slice`: negative indices wrap once, then clamp to `[0, n-size]` -/
def dynStart (n size : Nat) (i : Int) : Nat :=
  let j := wrapIdx n i
  if j < 0 then 0 else min j.toNat (n - size)

def dynSlice {α} (xs : List α) (i : Int) (size : Nat) : List α :=
  (xs.drop (dynStart xs.length size i)).take size

/-- `jnp.pad(g, pad_width=w)` with zeros on both axes -/
def pad (g : Grid Int) (w : Nat) : Grid Int :=
  let z := List.replicate (Grid.cols g + 2 * w) (0 : Int)
  List.replicate w z ++ List.map (fun row => List.replicate w (0 : Int) ++ row ++ List.replicate w 0) g ++
    List.replicate w z

def minedGrid (s : State) : Grid Int := reshape (minedFlat s) (nrows s) (ncols s)

/-- `count_adjacent_mines` (PATCH_SIZE = 3) -/
def countAdjacentMines (s : State) (r c : Int) : Int :=
  let mb := minedGrid s
  let pb := pad mb 2
  let rows := dynSlice pb (r + 1) 3
  let patch := rows.map (fun row => dynSlice row (c + 1) 3)
  (patch.flatten).sum - Grid.getWC mb 0 r c

/-- `is_valid_action`: `board[tuple(action)] == UNEXPLORED_ID` -/
def isValid (s : State) (r c : Int) : Bool := Grid.getWC s.board 0 r c == -1

/-- number of explored squares `(board >= 0).sum()` -/
def explored (b : Grid Int) : Nat := Grid.count (fun v => decide (0 ≤ v)) b

/-- `is_solved` -/
def isSolved (s : State) : Bool :=
  ((explored s.board : Nat) : Int) == (nrows s * ncols s : Nat) - (s.mines.length : Int)

/-- `_state_to_observation` (num_mines is the constructor's constant) -/
def observeL1 (cfg : Cfg) (s : State) : Obs :=
  { board := s.board, mask := Grid.map (fun v => v == -1) s.board,
    numMines := cfg.numMines, stepCount := s.stepCount }

/-- `DefaultRewardFn.__call__` -/
def reward (cfg : Cfg) (s : State) (r c : Int) : Rat :=
  if isValid s r c then (if exploredMine s r c then cfg.rMine else cfg.rEmpty) else cfg.rInvalid

def step (cfg : Cfg) (s : State) (r c : Int) : State × TimeStep Obs :=
  let board := Grid.setWD s.board r c (countAdjacentMines s r c)
  let s' : State := { board := board, stepCount := s.stepCount + 1, mines := s.mines }
  let rew := reward cfg s r c
  let done := !(isValid s r c) || exploredMine s r c || isSolved s'
  (s', condLast done [rew] (observeL1 cfg s'))

/-! ### L2: the rules -/

/-- value of a square (only meaningful inside the board) -/
def cell (s : State) (r c : Nat) : Int := Grid.get s.board 0 r c

/-- a square may be explored iff it is on the board and not yet explored -/
def legal (s : State) (r c : Nat) : Prop := r < nrows s ∧ c < ncols s ∧ cell s r c = -1

instance (s : State) (r c : Nat) : Decidable (legal s r c) := by unfold legal; infer_instance

/-- is square `(r, c)` mined: its flat index is one of the mine locations -/
def isMine (s : State) (r c : Nat) : Bool := s.mines.contains (((r * ncols s + c : Nat)) : Int)

/-- the 8 neighbour offsets -/
def offsets : List (Int × Int) := [(-1,-1), (-1,0), (-1,1), (0,-1), (0,1), (1,-1), (1,0), (1,1)]

/-- is the (possibly off-board) square `(r, c)` a mined square of the board -/
def isMineZ (s : State) (r c : Int) : Bool :=
  decide (0 ≤ r) && decide (r < nrows s) && decide (0 ≤ c) && decide (c < ncols s) &&
    isMine s r.toNat c.toNat

/-- number of mines in the 8 squares adjacent to `(r, c)` -/
def adjMines (s : State) (r c : Nat) : Nat :=
  (offsets.filter (fun d => isMineZ s (r + d.1) (c + d.2))).length

/-- documented observation: the board, the not-yet-explored squares, the number of mines on the
board and the number of elapsed steps -/
def observe (s : State) : Obs :=
  { board := s.board, mask := Grid.map (fun v => decide (v = -1)) s.board,
    numMines := s.mines.length, stepCount := s.stepCount }

/-- the mine table: exactly `numMines` distinct locations, all on the board -/
def MinesOK (cfg : Cfg) (s : State) : Prop :=
  s.mines.length = cfg.numMines ∧ s.mines.Nodup ∧
  ∀ m ∈ s.mines, 0 ≤ m ∧ m < ((cfg.numRows * cfg.numCols : Nat) : Int)

instance (cfg : Cfg) (s : State) : Decidable (MinesOK cfg s) := by unfold MinesOK; infer_instance

/-- every square is unexplored or shows the number of adjacent mines -/
def BoardOK (s : State) : Prop :=
  ∀ r, r < nrows s → ∀ c, c < ncols s → cell s r c = -1 ∨ cell s r c = adjMines s r c

instance (s : State) : Decidable (BoardOK s) := by unfold BoardOK; infer_instance

/-- no explored square is a mine (holds while the episode continues) -/
def NoMineExplored (s : State) : Prop :=
  ∀ r, r < nrows s → ∀ c, c < ncols s → cell s r c = -1 ∨ isMine s r c = false

instance (s : State) : Decidable (NoMineExplored s) := by unfold NoMineExplored; infer_instance

/-- physically possible configuration of a running game (C07) -/
def Consistent (cfg : Cfg) (s : State) : Prop :=
  Grid.shaped s.board cfg.numRows cfg.numCols = true ∧ MinesOK cfg s ∧ BoardOK s ∧
  NoMineExplored s ∧ s.stepCount = (explored s.board : Int)

instance (cfg : Cfg) (s : State) : Decidable (Consistent cfg s) := by unfold Consistent; infer_instance

/-- conserved quantity: the mine set -/
def Conserved (s s' : State) : Prop := s'.mines = s.mines
instance (s s' : State) : Decidable (Conserved s s') := by unfold Conserved; infer_instance

/-- explored squares without / with a mine -/
def safeRevealed (s : State) : Nat :=
  ((Grid.coords (nrows s) (ncols s)).filter (fun p => decide (0 ≤ cell s p.1 p.2) && !(isMine s p.1 p.2))).length
def minesRevealed (s : State) : Nat :=
  ((Grid.coords (nrows s) (ncols s)).filter (fun p => decide (0 ≤ cell s p.1 p.2) && isMine s p.1 p.2)).length

/-- documented objective: `rEmpty` per safe square revealed (`rMine` per mine revealed; default 0) -/
def objective (cfg : Cfg) (s : State) : Rat :=
  cfg.rEmpty * (safeRevealed s : Rat) + cfg.rMine * (minesRevealed s : Rat)

/-- L2 successor board: the explored square shows its adjacent-mine count -/
def reveal (s : State) (r c : Nat) : Grid Int := Grid.set s.board r c (adjMines s r c)

/-- generator invariant (C10): fresh board, mines as advertised -/
def InstanceOK (cfg : Cfg) (s : State) : Prop :=
  Grid.shaped s.board cfg.numRows cfg.numCols = true ∧ Grid.all (fun v => v == -1) s.board = true ∧
  s.stepCount = 0 ∧ MinesOK cfg s

instance (cfg : Cfg) (s : State) : Decidable (InstanceOK cfg s) := by unfold InstanceOK; infer_instance

/-! ### L1: the generator (`generator.py` `Generator.__call__` / `UniformSamplingGenerator`,
`utils.create_flat_mine_locations`) -/

/-- support of the draw `jax.random.choice(key, num_rows * num_cols, shape=(num_mines,), replace=False)`
(sampling WITHOUT replacement): `num_mines` pairwise distinct flat cell indices below `rows * cols` -/
def validDraw (cfg : Cfg) (d : List Nat) : Prop :=
  d.length = cfg.numMines ∧ d.Nodup ∧ ∀ m ∈ d, m < cfg.numRows * cfg.numCols

instance (cfg : Cfg) (d : List Nat) : Decidable (validDraw cfg d) := by unfold validDraw; infer_instance

/-- `Generator.__call__` with the drawn mine locations as a parameter:
`board = jnp.full((num_rows, num_cols), UNEXPLORED_ID)`, `step_count = 0`,
`flat_mine_locations = create_flat_mine_locations(...)` (the key is not modelled) -/
def generate (cfg : Cfg) (d : List Nat) : State :=
  { board := Grid.mk cfg.numRows cfg.numCols (-1), stepCount := 0, mines := d.map Int.ofNat }

/-- the draw read off a state (inverse of `generate` on the mine table) -/
def drawOf (s : State) : List Nat := s.mines.map Int.toNat

/-! ### whole episodes (C08): the L1 `step` folded over an action list, stopping at the first LAST step -/

/-- how a played action list ended: no LAST step yet / all safe squares revealed / a mine revealed / an already
revealed square selected -/
inductive Ending | running | cleared | mine | invalid
  deriving DecidableEq, Repr

structure Outcome where
  final : State
  ret : Rat
  ending : Ending

/-- play the actions with the L1 `step` until the first LAST time step: final state, sum of the rewards, and the
reason of the end (classified by the rules: `legal`, `isMine`) -/
def play (cfg : Cfg) (s : State) : List (Nat × Nat) → Outcome
  | [] => ⟨s, 0, .running⟩
  | a :: as =>
    if (step cfg s a.1 a.2).2.stepType = .last then
      ⟨(step cfg s a.1 a.2).1, (step cfg s a.1 a.2).2.reward.sum,
        if legal s a.1 a.2 then (if isMine s a.1 a.2 then .mine else .cleared) else .invalid⟩
    else
      ⟨(play cfg (step cfg s a.1 a.2).1 as).final,
       (step cfg s a.1 a.2).2.reward.sum + (play cfg (step cfg s a.1 a.2).1 as).ret,
       (play cfg (step cfg s a.1 a.2).1 as).ending⟩

/-- the documented terminal term of the return -/
def terminalTerm (cfg : Cfg) : Ending → Rat
  | .mine => cfg.rMine
  | .invalid => cfg.rInvalid
  | _ => 0

end Minesweeper
