/- Facts about `Jx.Grid` on in-range indices: get/set, gather/scatter with natural indices,
   shapes, counting.  (Used by the Minesweeper and Sudoku proofs; lives here so that tools/merge_env.sh copies it.) -/
import JumanjiModel.Prim.Grid
import JumanjiModel.Prim.Lemmas
namespace Jx
namespace Grid
variable {α : Type}

/-- width of row `r` -/
def rowLen (g : Grid α) (r : Nat) : Nat := (List.getD g r []).length

theorem get_eq (g : Grid α) (d : α) (r c : Nat) : get g d r c = (List.getD g r []).getD c d := rfl

theorem set_eq (g : Grid α) (r c : Nat) (v : α) (hr : r < g.length) :
    set g r c v = List.set g r (List.set (List.getD g r []) c v) := by
  unfold set
  simp [List.getElem?_eq_getElem hr, List.getD_eq_getElem?_getD]

theorem set_length (g : Grid α) (r c : Nat) (v : α) : (set g r c v).length = g.length := by
  unfold set; split <;> simp

theorem set_oob (g : Grid α) (r c : Nat) (v : α) (hr : ¬ r < g.length) : set g r c v = g := by
  unfold set
  have : g[r]? = none := by simp; omega
  simp [this]

theorem rowLen_set (g : Grid α) (r c : Nat) (v : α) (r' : Nat) :
    rowLen (set g r c v) r' = rowLen g r' := by
  by_cases hr : r < g.length
  · rw [set_eq g r c v hr]
    unfold rowLen
    by_cases h : r' = r
    · subst h; simp [List.getD_eq_getElem?_getD, hr]
    · simp [List.getD_eq_getElem?_getD, Ne.symm h]
  · rw [set_oob g r c v hr]

theorem get_set (g : Grid α) (d : α) (r c : Nat) (v : α) (r' c' : Nat)
    (hr : r < g.length) (hc : c < rowLen g r) :
    get (set g r c v) d r' c' = if r' = r ∧ c' = c then v else get g d r' c' := by
  rw [set_eq g r c v hr]
  unfold rowLen at hc
  simp only [get_eq]
  by_cases h : r' = r
  · subst h
    by_cases h2 : c' = c
    · subst h2
      have hc' : c' < g[r'].length := by simpa [List.getD_eq_getElem?_getD, hr] using hc
      simp [List.getD_eq_getElem?_getD, hr, hc']
    · simp [List.getD_eq_getElem?_getD, hr, h2, Ne.symm h2]
  · have : ¬ (r' = r ∧ c' = c) := fun hh => h hh.1
    simp [List.getD_eq_getElem?_getD, Ne.symm h, this]

theorem getWC_nat (g : Grid α) (d : α) (r c : Nat) (hr : r < g.length) (hc : c < rowLen g r) :
    getWC g d (r : Int) (c : Int) = get g d r c := by
  unfold getWC
  rw [Jx.getWC_nat g [] hr]
  unfold rowLen at hc
  rw [Jx.getWC_nat _ d hc]
  rfl

theorem setWD_nat (g : Grid α) (r c : Nat) (v : α) (hr : r < g.length) (hc : c < rowLen g r) :
    setWD g (r : Int) (c : Int) v = set g r c v := by
  rw [set_eq g r c v hr]
  unfold setWD wrapIdx rowLen at *
  simp only []
  have h1 : ¬ ((r : Int) < 0) := by omega
  have h2 : ¬ ((r : Int) ≥ (g.length : Int)) := by omega
  simp only [h1, h2, if_false, Int.toNat_natCast]
  simp only [List.getElem?_eq_getElem hr]
  have e : List.getD g r [] = g[r] := by simp [List.getD_eq_getElem?_getD, hr]
  rw [e] at hc ⊢
  have h3 : ¬ ((c : Int) < 0) := by omega
  have h4 : ¬ ((c : Int) ≥ (g[r].length : Int)) := by omega
  simp [h3, h4]

/-! shapes -/

theorem shaped_iff (g : Grid α) (nr nc : Nat) :
    shaped g nr nc = true ↔ g.length = nr ∧ ∀ r, r < nr → rowLen g r = nc := by
  unfold shaped rowLen
  simp only [Bool.and_eq_true, beq_iff_eq, List.all_eq_true]
  constructor
  · rintro ⟨h1, h2⟩
    refine ⟨h1, fun r hr => ?_⟩
    have hr' : r < g.length := by omega
    have := h2 g[r] (List.getElem_mem hr')
    simp [List.getD_eq_getElem?_getD, hr', this]
  · rintro ⟨h1, h2⟩
    refine ⟨h1, fun row hrow => ?_⟩
    obtain ⟨i, hi, rfl⟩ := List.getElem_of_mem hrow
    have := h2 i (by omega)
    simpa [List.getD_eq_getElem?_getD, hi] using this

theorem shaped_set (g : Grid α) (nr nc : Nat) (r c : Nat) (v : α) (h : shaped g nr nc = true) :
    shaped (set g r c v) nr nc = true := by
  rw [shaped_iff] at h ⊢
  refine ⟨by rw [set_length]; exact h.1, fun r' hr' => ?_⟩
  rw [rowLen_set]; exact h.2 r' hr'

theorem cols_of_shaped (g : Grid α) (nr nc : Nat) (h : shaped g nr nc = true) (hpos : 0 < nr) :
    cols g = nc := by
  rw [shaped_iff] at h
  have := h.2 0 hpos
  unfold rowLen at this
  unfold cols
  cases g with
  | nil => simp at h; omega
  | cons r rs => simpa using this

/-! counting -/

theorem countP_set (p : α → Bool) (l : List α) (i : Nat) (v : α) (d : α) (h : i < l.length) :
    (l.set i v).countP p + (if p (l.getD i d) then 1 else 0) = l.countP p + (if p v then 1 else 0) := by
  induction l generalizing i with
  | nil => simp at h
  | cons x xs ih =>
    cases i with
    | zero =>
      simp [List.countP_cons, List.getD_eq_getElem?_getD]
      omega
    | succ i =>
      simp at h
      have := ih i h
      simp [List.countP_cons, List.getD_eq_getElem?_getD] at this ⊢
      omega

theorem count_eq_sum (p : α → Bool) (g : Grid α) :
    count p g = (List.map (List.countP p) g).sum := by
  unfold count
  rw [← List.countP_eq_length_filter, List.countP_flatten]

theorem sum_set (l : List Nat) (i : Nat) (v : Nat) (h : i < l.length) :
    (l.set i v).sum + l.getD i 0 = l.sum + v := by
  induction l generalizing i with
  | nil => simp at h
  | cons x xs ih =>
    cases i with
    | zero => simp [List.getD_eq_getElem?_getD]; omega
    | succ i =>
      simp at h
      have := ih i h
      simp [List.getD_eq_getElem?_getD] at this ⊢
      omega

theorem count_set (p : α → Bool) (g : Grid α) (d : α) (r c : Nat) (v : α)
    (hr : r < g.length) (hc : c < rowLen g r) :
    count p (set g r c v) + (if p (get g d r c) then 1 else 0) = count p g + (if p v then 1 else 0) := by
  rw [count_eq_sum, count_eq_sum, set_eq g r c v hr, List.map_set]
  unfold rowLen at hc
  have h1 := sum_set (List.map (List.countP p) g) r (List.countP p (List.set (List.getD g r []) c v))
    (by simpa using hr)
  have h2 := countP_set p (List.getD g r []) c v d hc
  have h3 : (List.map (List.countP p) g).getD r 0 = List.countP p (List.getD g r []) := by
    simp [List.getD_eq_getElem?_getD, hr]
  rw [h3] at h1
  rw [get_eq]
  omega

end Grid
end Jx
