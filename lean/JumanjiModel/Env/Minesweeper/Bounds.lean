/-
Minesweeper — C01: value bounds of the observation leaves (definitions; proofs in BoundsLemmas.lean).

Real spec: `board` BoundedArray(int32, -1, 8), `action_mask` bool, `num_mines` BoundedArray(int32, 0, rows*cols-1),
`step_count` BoundedArray(int32, 0, rows*cols - num_mines).
-/
import JumanjiModel.Env.Minesweeper.Model
import JumanjiModel.Env.PuzzleBounds
namespace Minesweeper
open Jm Jx PzB

/-- interval of every observation leaf, as a function of the configuration; `num_mines` is the constructor's constant -/
def obsBounds (cfg : Cfg) : Table :=
  [("board", iv (-1) 8), ("action_mask", iv 0 1), ("num_mines", iv (cfg.numMines : Int) (cfg.numMines : Int)),
   ("step_count", iv 0 (((cfg.numRows * cfg.numCols : Nat) : Int) - (cfg.numMines : Int)))]

/-- the numeric leaves of an observation, flattened -/
def obsLeaves (o : Obs) : Leaves :=
  [("board", ints2 o.board), ("action_mask", bools2 o.mask), ("num_mines", [o.numMines]), ("step_count", [o.stepCount])]

/-- `reset`: the observation of the generated state -/
def resetTimeStep (cfg : Cfg) (s : State) : TimeStep Obs := restart (observeL1 cfg s)

theorem obs_in_bounds (cfg : Cfg) (o : Obs) (hb : GridAll (fun v => -1 ≤ v ∧ v ≤ 8) o.board)
    (hm : o.numMines = (cfg.numMines : Int))
    (hs : 0 ≤ o.stepCount ∧ o.stepCount ≤ ((cfg.numRows * cfg.numCols : Nat) : Int) - (cfg.numMines : Int)) :
    ObsInBounds (obsBounds cfg) (obsLeaves o) := by
  refine ⟨by simp [obsBounds, obsLeaves], ?_⟩
  intro k b hk vs hvs
  simp only [obsBounds, obsLeaves, List.mem_cons, Prod.mk.injEq, List.not_mem_nil, or_false] at hk hvs
  rcases hk with ⟨rfl, rfl⟩ | ⟨rfl, rfl⟩ | ⟨rfl, rfl⟩ | ⟨rfl, rfl⟩ <;>
    rcases hvs with ⟨h', rfl⟩ | ⟨h', rfl⟩ | ⟨h', rfl⟩ | ⟨h', rfl⟩ <;>
    first
      | exact absurd h' (by decide)
      | exact allIn_ints2 _ _ _ hb
      | exact allIn_bools2 _
      | exact allIn_single _ _ _ hs
      | exact allIn_single _ _ _ (by omega)

end Minesweeper
