/-
GraphColoring — C01: proved value bounds of the observation leaves.

Real spec (`n` = num_nodes): `adj_matrix` bool, `action_mask` bool, `colors` BoundedArray(int32, -1, n-1),
`current_node_index` BoundedArray(int32, 0, n-1).
-/
import JumanjiModel.Env.GraphColoring.Model
import JumanjiModel.Env.PuzzleBounds
namespace GraphColoring
open Jm PzB

/-- interval of every observation leaf, as a function of the configuration (`n` = num_nodes) -/
def obsBounds (n : Nat) : Table :=
  [("adj_matrix", iv 0 1), ("action_mask", iv 0 1), ("colors", iv (-1) ((n : Int) - 1)),
   ("current_node_index", iv 0 ((n : Int) - 1))]

/-- the numeric leaves of an observation, flattened -/
def obsLeaves (o : Obs) : Leaves :=
  [("adj_matrix", bools2 o.adj), ("action_mask", bools o.mask), ("colors", o.colors),
   ("current_node_index", [o.cur])]

/-- every node is uncoloured (−1) or carries one of the `n` colours; the current node is one of the `n` nodes.
(`WF` has the lower bound of the colours and the range of `cur`; the upper bound of the colours is added here.) -/
def InRange (n : Nat) (s : State) : Prop :=
  (∀ c ∈ s.colors, -1 ≤ c ∧ c ≤ (n : Int) - 1) ∧ 0 ≤ s.cur ∧ s.cur ≤ (n : Int) - 1

instance (n : Nat) (s : State) : Decidable (InRange n s) := by unfold InRange; infer_instance

theorem obs_in_bounds (n : Nat) (s : State) (h : InRange n s) : ObsInBounds (obsBounds n) (obsLeaves (obsOf s)) := by
  refine ⟨by simp [obsBounds, obsLeaves], ?_⟩
  intro k b hk vs hvs
  simp only [obsBounds, obsLeaves, obsOf, List.mem_cons, Prod.mk.injEq, List.not_mem_nil, or_false] at hk hvs
  rcases hk with ⟨rfl, rfl⟩ | ⟨rfl, rfl⟩ | ⟨rfl, rfl⟩ | ⟨rfl, rfl⟩ <;>
    rcases hvs with ⟨h', rfl⟩ | ⟨h', rfl⟩ | ⟨h', rfl⟩ | ⟨h', rfl⟩ <;>
    first
      | exact absurd h' (by decide)
      | exact allIn_bools2 _
      | exact allIn_bools _
      | exact allIn_ints _ _ _ h.1
      | exact allIn_single _ _ _ h.2

theorem step_obs (n : Nat) (s : State) (a : Int) : (step n s a).2.obs = obsOf (step n s a).1 := by
  simp [step]

/-- `InRange` is an invariant: any step with a colour of the action space (`0 ≤ a < n`; `-1` is also harmless)
keeps it, whether or not the colour is legal and whether or not the step is terminal -/
theorem step_inRange (n : Nat) (s : State) (a : Int) (h : InRange n s) (ha : -1 ≤ a ∧ a < n) :
    InRange n (step n s a).1 := by
  have hn : (0 : Int) < n := by have := h.2; omega
  refine ⟨?_, ?_, ?_⟩
  · show ∀ c ∈ Jx.setWD s.colors s.cur a, _
    exact listAll_setWD _ h.1 (by omega)
  · show 0 ≤ (s.cur + 1) % (n : Int)
    exact Int.emod_nonneg _ (by omega)
  · show (s.cur + 1) % (n : Int) ≤ (n : Int) - 1
    have := Int.emod_lt_of_pos (s.cur + 1) hn
    omega

theorem reset_inRange (n : Nat) (adj : List (List Bool)) (hn : 0 < n) : InRange n (reset n adj).1 := by
  refine ⟨?_, ?_, ?_⟩
  · intro c hc
    simp only [reset, List.mem_replicate] at hc
    omega
  · simp [reset]
  · simp only [reset]; omega

theorem step_obs_in_bounds (n : Nat) (s : State) (a : Int) (h : InRange n s) (ha : -1 ≤ a ∧ a < n) :
    ObsInBounds (obsBounds n) (obsLeaves (step n s a).2.obs) := by
  rw [step_obs]; exact obs_in_bounds n _ (step_inRange n s a h ha)

theorem reset_obs_in_bounds (n : Nat) (adj : List (List Bool)) (hn : 0 < n) :
    ObsInBounds (obsBounds n) (obsLeaves (reset n adj).2.obs) := by
  have : (reset n adj).2.obs = obsOf (reset n adj).1 := rfl
  rw [this]; exact obs_in_bounds n _ (reset_inRange n adj hn)

end GraphColoring
