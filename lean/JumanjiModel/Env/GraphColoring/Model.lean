/-
GraphColoring (jumanji/environments/logic/graph_coloring/{env,generator,types}.py).  Import-free.

L1 = transliteration of `step`, `_get_valid_actions` (with the `valid_actions.at[-1]` sentinel trick
and `jnp.unique(colors, size=n, fill_value=-1)`), `reset` and `RandomGenerator.__call__`
(the uniform matrix thresholded by `edge_probability` is the draw parameter `B`).
L2 = `legal`, `Feasible`, `IsSolution`, `usedColours`, `observe`, `GraphOK` — the rules, stated without
looking at the mask code.

`n` = `num_nodes` (= number of colours) is the configuration.
-/
import JumanjiModel.Prim.Idx
import JumanjiModel.Core.TimeStep
namespace GraphColoring
open Jm

structure State where
  adj : List (List Bool)
  colors : List Int
  cur : Int
  mask : List Bool          -- cached: the mask of node `cur`
  deriving Repr, DecidableEq

structure Obs where
  adj : List (List Bool)
  colors : List Int
  mask : List Bool
  cur : Int
  deriving Repr, DecidableEq

/-! ### L0-style helpers local to this environment -/

/-- insert into a strictly increasing list, keeping it strictly increasing -/
def ins (x : Int) : List Int → List Int
  | [] => [x]
  | y :: ys => if x < y then x :: y :: ys else if x = y then y :: ys else y :: ins x ys

/-- the sorted distinct values of `xs` -/
def uniqSorted (xs : List Int) : List Int := xs.foldr ins []

/-- `jnp.unique(xs, size=size, fill_value=fill)`: sorted distinct values, padded with `fill` at the
end (or truncated) to exactly `size` entries -/
def uniqueSized (xs : List Int) (size : Nat) (fill : Int) : List Int :=
  let u := uniqSorted xs
  (u ++ List.replicate (size - u.length) fill).take size

/-! ### L1 -/

/-- `_get_valid_actions(current_node_index, adj_matrix, colors)`:
```
valid_actions = jnp.ones(num_nodes + 1, dtype=bool)
row = adj_matrix[current_node_index, :]
action_mask = jnp.where(row, colors, -1)
valid_actions = valid_actions.at[action_mask].set(False)
return valid_actions[:-1]
```
the scatter wraps `-1` to the extra last entry, which the final slice removes. -/
def validActions (n : Nat) (node : Int) (adj : List (List Bool)) (colors : List Int) : List Bool :=
  let valid := List.replicate (n + 1) true
  let row := Jx.getWC adj [] node
  let am := List.zipWith (fun (r : Bool) (c : Int) => if r then c else -1) row colors
  let valid := am.foldl (fun v i => Jx.setWD v i false) valid
  valid.dropLast

def obsOf (s : State) : Obs := { adj := s.adj, colors := s.colors, mask := s.mask, cur := s.cur }

/-- `jnp.count_nonzero(jnp.unique(colors, size=n, fill_value=-1) >= 0)` -/
def numUnique (n : Nat) (colors : List Int) : Nat :=
  ((uniqueSized colors n (-1)).filter (fun c => decide (c ≥ 0))).length

/-- `step` -/
def step (n : Nat) (s : State) (a : Int) : State × TimeStep Obs :=
  let invalid := !(Jx.getWC s.mask false a)
  let colors := Jx.setWD s.colors s.cur a
  let allColored := colors.all (fun c => decide (c ≥ 0))
  let reward : Rat := if allColored then -((numUnique n colors : Nat) : Rat) else 0
  let reward : Rat := if invalid then -((n : Nat) : Rat) else reward
  let done := allColored || invalid
  let next := (s.cur + 1) % (n : Int)
  let nmask := validActions n next s.adj colors
  let s' : State := { adj := s.adj, colors := colors, cur := next, mask := nmask }
  (s', condLast done [reward] (obsOf s'))

/-- `reset`, given the generated adjacency matrix -/
def reset (n : Nat) (adj : List (List Bool)) : State × TimeStep Obs :=
  let s : State := { adj := adj, colors := List.replicate n (-1), cur := 0, mask := List.replicate n true }
  (s, restart (obsOf s))

/-- `RandomGenerator.__call__` after the uniform draw: `B = p_matrix < edge_probability`;
`adj = tril(B, k=-1); adj += adj.T` (boolean `+` is `or`), written entry-wise. -/
def generate (n : Nat) (B : List (List Bool)) : List (List Bool) :=
  (List.range n).map (fun i => (List.range n).map (fun j =>
    (decide (j < i) && (B.getD i []).getD j false) || (decide (i < j) && (B.getD j []).getD i false)))

/-! ### L2: the rules -/

/-- is there an edge `i — j` -/
def edge (adj : List (List Bool)) (i j : Nat) : Bool := (adj.getD i []).getD j false

/-- the colour of node `j` (`-1` = not coloured) -/
def colour (s : State) (j : Nat) : Int := s.colors.getD j (-1)

/-- colour `a` may be given to the current node iff it is one of the `n` colours and no neighbour of
the current node already has it -/
def legal (n : Nat) (s : State) (a : Nat) : Prop :=
  a < n ∧ ∀ j, j < n → edge s.adj s.cur.toNat j = true → colour s j ≠ (a : Int)

instance (n : Nat) (s : State) (a : Nat) : Decidable (legal n s a) := by unfold legal; infer_instance

/-- hard constraint: no edge joins two nodes of the same (assigned) colour -/
def Feasible (n : Nat) (s : State) : Prop :=
  ∀ i, i < n → ∀ j, j < n → edge s.adj i j = true → 0 ≤ colour s i → colour s i ≠ colour s j

instance (n : Nat) (s : State) : Decidable (Feasible n s) := by unfold Feasible; infer_instance

/-- a complete proper colouring -/
def IsSolution (n : Nat) (s : State) : Prop :=
  Feasible n s ∧ s.colors.length = n ∧ ∀ c ∈ s.colors, 0 ≤ c

instance (n : Nat) (s : State) : Decidable (IsSolution n s) := by unfold IsSolution; infer_instance

/-- the distinct elements of a list (first occurrences dropped) -/
def distinct : List Int → List Int
  | [] => []
  | x :: xs => if x ∈ xs then distinct xs else x :: distinct xs

/-- number of different colours in use -/
def usedColours (colors : List Int) : Nat := (distinct (colors.filter (fun c => decide (0 ≤ c)))).length

/-- the objective of a finished colouring: minus the number of colours used -/
def objective (s : State) : Rat := -((usedColours s.colors : Nat) : Rat)

/-- the documented observation: graph, colours, current node and the colours allowed for it -/
def observe (n : Nat) (s : State) : Obs :=
  { adj := s.adj, colors := s.colors, cur := s.cur,
    mask := (List.range n).map (fun a => decide (legal n s a)) }

/-- the rules of one move, written directly (reference model of C09): the current node receives the
colour, the turn passes to the next node (cyclically), the mask lists the colours legal for it.  A legal
move earns 0, or minus the number of colours in use when it completes the colouring (which ends the
episode); an illegal move ends the episode with `-n`. -/
def stepSpec (n : Nat) (s : State) (a : Nat) : State × TimeStep Obs :=
  let s1 : State := { adj := s.adj, colors := List.set s.colors s.cur.toNat (a : Int),
                      cur := if s.cur + 1 = (n : Int) then 0 else s.cur + 1, mask := [] }
  let s' : State := { s1 with mask := (List.range n).map (fun b => decide (legal n s1 b)) }
  if legal n s a then
    if ∀ c ∈ s'.colors, 0 ≤ c then (s', termination [objective s'] (observe n s'))
    else (s', transition [0] (observe n s'))
  else (s', termination [-((n : Nat) : Rat)] (observe n s'))

/-- nodes before the current one are coloured (they are, from `reset` on) -/
def PrefixColoured (s : State) : Prop := ∀ j, j < s.cur.toNat → 0 ≤ colour s j

/-- states reached from `reset` on graph `adj` by playing legal colours while the episode runs -/
inductive LegalReach (n : Nat) (adj : List (List Bool)) : State → Prop
  | reset : LegalReach n adj (reset n adj).1
  | step (s : State) (a : Nat) : LegalReach n adj s → legal n s a →
      (step n s (a : Int)).2.stepType ≠ .last → LegalReach n adj (step n s (a : Int)).1

/-- generator certificate (C10): an `n × n` symmetric matrix without self-loops -/
def GraphOK (n : Nat) (adj : List (List Bool)) : Prop :=
  adj.length = n ∧ (∀ row ∈ adj, row.length = n) ∧
  (∀ i, i < n → ∀ j, j < n → edge adj i j = edge adj j i) ∧ (∀ i, i < n → edge adj i i = false)

instance (n : Nat) (adj : List (List Bool)) : Decidable (GraphOK n adj) := by unfold GraphOK; infer_instance

/-- shape and range conditions of a state -/
def WF (n : Nat) (s : State) : Prop :=
  s.colors.length = n ∧ s.adj.length = n ∧ (∀ row ∈ s.adj, row.length = n) ∧
  (∀ c ∈ s.colors, -1 ≤ c) ∧ 0 ≤ s.cur ∧ s.cur < n

instance (n : Nat) (s : State) : Decidable (WF n s) := by unfold WF; infer_instance

/-- the invariant of reachable states: well-formed and the cached mask is the mask of the current node -/
def Inv (n : Nat) (s : State) : Prop := WF n s ∧ s.mask = validActions n s.cur s.adj s.colors

instance (n : Nat) (s : State) : Decidable (Inv n s) := by unfold Inv; infer_instance

/-- the reset state is the documented one -/
def ResetOK (n : Nat) (s : State) : Prop :=
  s.colors = List.replicate n (-1) ∧ s.cur = 0 ∧ s.mask = List.replicate n true

instance (n : Nat) (s : State) : Decidable (ResetOK n s) := by unfold ResetOK; infer_instance

/-- C05 judge: the documented effect of an illegal action: the episode ends with the penalty `-n`;
the graph is untouched and no node other than the current one changes colour. -/
def illegalOk (n : Nat) (s : State) (s' : State) (ts : TimeStep Obs) : Bool :=
  ts.stepType == .last && ts.reward == [-((n : Nat) : Rat)] && ts.discount == [0] &&
  decide (s'.adj = s.adj) && decide (s'.colors.length = s.colors.length) &&
  (List.range n).all (fun j => decide ((j : Int) = s.cur) || decide (colour s' j = colour s j))

/-! ### the generator with the uniform draw as parameter (C10) -/

/-- `p_matrix < edge_probability` -/
def threshold (p : Rat) (U : List (List Rat)) : List (List Bool) :=
  U.map (fun row => row.map (fun u => decide (u < p)))

/-- `RandomGenerator.__call__` with `U` = the `n × n` matrix `jax.random.uniform` returned and `p` =
`edge_probability`: threshold, then `tril(·, -1)` and `+ transpose` -/
def generateU (n : Nat) (p : Rat) (U : List (List Rat)) : List (List Bool) := generate n (threshold p U)

/-- the support of the uniform draw: an `n × n` matrix of numbers of `[0, 1)` -/
def validUniform (n : Nat) (U : List (List Rat)) : Prop :=
  U.length = n ∧ ∀ row ∈ U, row.length = n ∧ ∀ u ∈ row, 0 ≤ u ∧ u < 1

instance (n : Nat) (U : List (List Rat)) : Decidable (validUniform n U) := by unfold validUniform; infer_instance

/-- number of edges among the first `m` nodes: pairs `j < i < m` joined by an edge -/
def numEdges (adj : List (List Bool)) : Nat → Nat
  | 0 => 0
  | i + 1 => numEdges adj i + ((List.range i).filter (fun j => edge adj i j)).length

/-- number of `true` entries of the strict lower triangle (rows `< m`) of a Boolean matrix -/
def lowerTrue (B : List (List Bool)) : Nat → Nat
  | 0 => 0
  | i + 1 => lowerTrue B i + ((List.range i).filter (fun j => (B.getD i []).getD j false)).length

end GraphColoring
