/-
GraphColoring: the generator with the uniform draw as parameter, what it guarantees about the number of edges
(C10), and whole-episode feasibility (C06).
-/
import JumanjiModel.Env.GraphColoring.EpisodeLemmas
namespace GraphColoring
open Jm

/-- for every draw (of any shape, any threshold) the result is `n × n`, symmetric, loop-free -/
theorem generateU_ok (n : Nat) (p : Rat) (U : List (List Rat)) : GraphOK n (generateU n p U) :=
  generate_ok n _

/-- what the generator guarantees about the edges: the number of edges is exactly the number of strict-lower-triangle
entries of the thresholded draw -/
theorem numEdges_generate (n : Nat) (B : List (List Bool)) :
    ∀ m, m ≤ n → numEdges (generate n B) m = lowerTrue B m := by
  intro m
  induction m with
  | zero => intro _; rfl
  | succ i ih =>
    intro hi
    simp only [numEdges, lowerTrue]
    rw [ih (by omega)]
    congr 2
    apply List.filter_congr
    intro j hj
    have hj' : j < i := List.mem_range.1 hj
    rw [edge_generate n B i j (by omega) (by omega)]
    have h1 : decide (j < i) = true := by simp [hj']
    have h2 : decide (i < j) = false := by simp; omega
    simp [h1, h2]

/-- … which is at most the number of node pairs, whatever the matrix -/
theorem numEdges_le (adj : List (List Bool)) : ∀ m, numEdges adj m * 2 + m ≤ m * m := by
  intro m
  induction m with
  | zero => simp [numEdges]
  | succ i ih =>
    simp only [numEdges]
    have : ((List.range i).filter (fun j => edge adj i j)).length ≤ i := by
      have := List.length_filter_le (fun j => edge adj i j) (List.range i)
      simpa using this
    have e : (i + 1) * (i + 1) = i * i + 2 * i + 1 := by
      rw [Nat.add_mul, Nat.mul_add]; omega
    omega

theorem threshold_const (n : Nat) (p c : Rat) (i j : Nat) (hi : i < n) (hj : j < n) :
    ((threshold p (List.replicate n (List.replicate n c))).getD i []).getD j false = decide (c < p) := by
  simp [threshold, List.getD_eq_getElem?_getD, List.getElem?_replicate, hi, hj]

/-- the number of edges is NOT fixed by `edge_probability`: the all-zero draw gives the complete graph … -/
theorem generateU_complete (n : Nat) (p : Rat) (hp : 0 < p) (i j : Nat) (hi : i < n) (hj : j < n) :
    edge (generateU n p (List.replicate n (List.replicate n 0))) i j = decide (i ≠ j) := by
  unfold generateU
  rw [edge_generate n _ i j hi hj, threshold_const n p 0 i j hi hj, threshold_const n p 0 j i hj hi]
  simp [hp]
  by_cases h : i = j
  · subst h; simp
  · simp [h]; omega

/-- … and the constant draw `p` (valid when `p < 1`) gives the empty graph -/
theorem generateU_empty (n : Nat) (p : Rat) (i j : Nat) (hi : i < n) (hj : j < n) :
    edge (generateU n p (List.replicate n (List.replicate n p))) i j = false := by
  unfold generateU
  rw [edge_generate n _ i j hi hj, threshold_const n p p i j hi hj, threshold_const n p p j i hj hi]
  simp [Rat.lt_irrefl]

theorem validUniform_const (n : Nat) (c : Rat) (h0 : 0 ≤ c) (h1 : c < 1) :
    validUniform n (List.replicate n (List.replicate n c)) := by
  refine ⟨by simp, ?_⟩
  intro row hrow
  have := List.eq_of_mem_replicate hrow
  subst this
  refine ⟨by simp, ?_⟩
  intro u hu
  have := List.eq_of_mem_replicate hu
  subst this
  exact ⟨h0, h1⟩

/-! ### whole episodes -/

/-- every colour of the list is legal (L2) when its turn comes -/
def AllLegal (n : Nat) : State → List Nat → Prop
  | _, [] => True
  | s, a :: as => legal n s a ∧ AllLegal n (step n s (a : Int)).1 as

/-- mask-respecting: every colour has its bit set in the action mask of the observation current at its turn -/
def AllMasked (n : Nat) : State → List Nat → Prop
  | _, [] => True
  | s, a :: as => (obsOf s).mask.getD a false = true ∧ AllMasked n (step n s (a : Int)).1 as

theorem allLegal_take (n : Nat) (as : List Nat) : ∀ s k, AllLegal n s as → AllLegal n s (as.take k) := by
  induction as with
  | nil => intro s k h; simpa using h
  | cons a as ih =>
    intro s k h
    cases k with
    | zero => simp [AllLegal]
    | succ k => simp only [List.take_succ_cons, AllLegal] at h ⊢; exact ⟨h.1, ih _ k h.2⟩

/-- the invariant carried along: well-formed with fresh cached mask, original graph, proper partial colouring -/
theorem invariants_play (n : Nat) (as : List Nat) :
    ∀ s, Inv n s → GraphOK n s.adj → Feasible n s → AllLegal n s as →
      Inv n (runState n s as) ∧ (runState n s as).adj = s.adj ∧ Feasible n (runState n s as) := by
  induction as with
  | nil => intro s hi _ hf _; exact ⟨hi, rfl, hf⟩
  | cons a as ih =>
    intro s hi hg hf hal
    simp only [AllLegal] at hal
    simp only [runState]
    have hi' := step_Inv n s (a : Int) hi.1 (by omega)
    have hadj : (step n s (a : Int)).1.adj = s.adj := rfl
    have := ih _ hi' (by rw [hadj]; exact hg) (step_feasible n s a hi.1 hg hf hal.1) hal.2
    exact ⟨this.1, by rw [this.2.1, hadj], this.2.2⟩

theorem allMasked_allLegal (n : Nat) (as : List Nat) :
    ∀ s, Inv n s → AllMasked n s as → AllLegal n s as := by
  induction as with
  | nil => intro s _ _; simp [AllLegal]
  | cons a as ih =>
    intro s hi h
    simp only [AllMasked] at h
    have hm : (obsOf s).mask = validActions n s.cur s.adj s.colors := hi.2
    have hl : legal n s a := (mask_iff_legal n s a hi.1).1 (by rw [← hm]; exact h.1)
    exact ⟨hl, ih _ (step_Inv n s (a : Int) hi.1 (by omega)) h.2⟩

/-- proper partial colouring after every prefix of a legal sequence -/
theorem feasible_along (n : Nat) (s : State) (as : List Nat) (hi : Inv n s) (hg : GraphOK n s.adj)
    (hf : Feasible n s) (hal : AllLegal n s as) (k : Nat) : Feasible n (runState n s (as.take k)) :=
  (invariants_play n _ s hi hg hf (allLegal_take n as s k hal)).2.2

end GraphColoring
