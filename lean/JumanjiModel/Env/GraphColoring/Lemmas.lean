import JumanjiModel.Env.GraphColoring.Model
import JumanjiModel.Prim.Lemmas
namespace GraphColoring
open Jm

theorem getD_setWD_false (v : List Bool) (i : Int) (b : Nat) (hi : -1 ≤ i) (hb : b + 1 < v.length) :
    (Jx.setWD v i false).getD b false = (v.getD b false && !decide (i = (b:Int))) := by
  unfold Jx.setWD Jx.wrapIdx
  simp only []
  by_cases h0 : i < 0
  · have : i = -1 := by omega
    subst this
    simp only [h0, if_true]
    have h1 : ¬ ((-1 : Int) + (v.length : Int) < 0) := by omega
    have h2 : ¬ ((-1 : Int) + (v.length : Int) ≥ (v.length : Int)) := by omega
    simp only [h1, h2, if_false]
    have : ((-1 : Int) + (v.length : Int)).toNat ≠ b := by omega
    simp [List.getD_eq_getElem?_getD, this]
  · simp only [h0, if_false]
    by_cases h2 : i ≥ (v.length : Int)
    · simp only [h2, if_true]
      have : i ≠ (b : Int) := by omega
      simp [this]
    · simp only [h2, if_false]
      by_cases h3 : i = (b : Int)
      · subst h3
        simp [List.getD_eq_getElem?_getD, List.getElem?_set]
        split <;> rfl
      · have : i.toNat ≠ b := by omega
        simp [List.getD_eq_getElem?_getD, this, h3]

theorem foldl_getD (am : List Int) (v : List Bool) (b : Nat) (ham : ∀ i ∈ am, -1 ≤ i)
    (hb : b + 1 < v.length) :
    (am.foldl (fun v i => Jx.setWD v i false) v).getD b false
      = (v.getD b false && !decide ((b:Int) ∈ am)) := by
  induction am generalizing v with
  | nil => simp
  | cons i am ih =>
    simp only [List.foldl_cons]
    rw [ih (Jx.setWD v i false) (fun j hj => ham j (List.mem_cons_of_mem _ hj))
      (by rw [Jx.setWD_length]; exact hb)]
    rw [getD_setWD_false v i b (ham i (List.mem_cons_self)) hb]
    cases v.getD b false <;> simp
    by_cases h : i = (b:Int)
    · simp [h]
    · have : ¬ (b:Int) = i := fun e => h e.symm
      simp [h, this]

theorem getD_dropLast {α} (l : List α) (b : Nat) (d : α) (hb : b + 1 < l.length) :
    l.dropLast.getD b d = l.getD b d := by
  have : b < l.length - 1 := by omega
  rw [List.getD_eq_getElem?_getD, List.getD_eq_getElem?_getD, List.getElem?_dropLast, if_pos this]

theorem mem_am (row : List Bool) (colors : List Int) (n b : Nat) (hr : row.length = n)
    (hc : colors.length = n) :
    (b:Int) ∈ List.zipWith (fun (r:Bool) (c:Int) => if r then c else -1) row colors ↔
      ∃ j, j < n ∧ row.getD j false = true ∧ colors.getD j (-1) = (b:Int) := by
  constructor
  · intro h
    obtain ⟨j, hj, e⟩ := List.mem_iff_getElem.1 h
    simp at hj
    refine ⟨j, by omega, ?_⟩
    simp only [List.getElem_zipWith] at e
    have h1 : j < row.length := by omega
    have h2 : j < colors.length := by omega
    simp only [List.getD_eq_getElem?_getD, List.getElem?_eq_getElem h1, List.getElem?_eq_getElem h2, Option.getD_some]
    split at e
    · exact ⟨by assumption, e⟩
    · omega
  · rintro ⟨j, hj, h1, h2⟩
    have hj1 : j < row.length := by omega
    have hj2 : j < colors.length := by omega
    simp only [List.getD_eq_getElem?_getD, List.getElem?_eq_getElem hj1, List.getElem?_eq_getElem hj2, Option.getD_some] at h1 h2
    apply List.mem_iff_getElem.2
    refine ⟨j, by simp; omega, ?_⟩
    simp only [List.getElem_zipWith, h1, if_true, h2]

theorem foldl_setWD_length (am : List Int) (v : List Bool) :
    (am.foldl (fun v i => Jx.setWD v i false) v).length = v.length := by
  induction am generalizing v with
  | nil => rfl
  | cons i am ih => simp only [List.foldl_cons]; rw [ih, Jx.setWD_length]

/-- the mask bit of colour `b` for node `node`: no neighbour of `node` has colour `b` -/
theorem validActions_getD (n node : Nat) (adj : List (List Bool)) (colors : List Int) (b : Nat)
    (hb : b < n) (hadj : adj.length = n) (hrows : ∀ row ∈ adj, row.length = n)
    (hcl : colors.length = n) (hc : ∀ c ∈ colors, -1 ≤ c) (hnode : node < n) :
    (validActions n (node : Int) adj colors).getD b false = true ↔
      ∀ j, j < n → edge adj node j = true → colors.getD j (-1) ≠ (b : Int) := by
  unfold validActions
  simp only []
  have hnode' : node < adj.length := by omega
  rw [Jx.getWC_nat adj [] hnode']
  have hrow : (adj.getD node []).length = n := by
    apply hrows
    rw [List.getD_eq_getElem?_getD, List.getElem?_eq_getElem hnode']
    simp
  have ham : ∀ i ∈ List.zipWith (fun (r : Bool) (c : Int) => if r then c else -1) (adj.getD node []) colors,
      -1 ≤ i := by
    intro i hi
    obtain ⟨j, hj, e⟩ := List.mem_iff_getElem.1 hi
    simp only [List.getElem_zipWith] at e
    split at e
    · rw [← e]; exact hc _ (List.getElem_mem _)
    · omega
  rw [getD_dropLast _ _ _ (by rw [foldl_setWD_length]; simp; omega)]
  rw [foldl_getD _ _ _ ham (by simp; omega)]
  have : (List.replicate (n + 1) true).getD b false = true := by
    have hb1 : b < n + 1 := by omega
    simp [List.getD_eq_getElem?_getD, hb1]
  rw [this]
  simp only [Bool.true_and, Bool.not_eq_true', decide_eq_false_iff_not, edge]
  rw [mem_am _ _ n b hrow hcl]
  constructor
  · intro h j hj he hcj
    exact h ⟨j, hj, he, hcj⟩
  · rintro h ⟨j, hj, he, hcj⟩
    exact h j hj he hcj

theorem validActions_length (n : Nat) (node : Int) (adj : List (List Bool)) (colors : List Int) :
    (validActions n node adj colors).length = n := by
  unfold validActions
  simp only [List.length_dropLast, foldl_setWD_length, List.length_replicate]
  omega

/-- C04: the (recomputed) mask of the current node is exactly the set of legal colours -/
theorem mask_iff_legal (n : Nat) (s : State) (a : Nat) (h : WF n s) :
    (validActions n s.cur s.adj s.colors).getD a false = true ↔ legal n s a := by
  obtain ⟨hcl, hadj, hrows, hc, h0, h1⟩ := h
  have hcur : s.cur = ((s.cur.toNat : Nat) : Int) := by omega
  by_cases ha : a < n
  · have key := validActions_getD n s.cur.toNat s.adj s.colors a ha hadj hrows hcl hc (by omega)
    rw [← hcur] at key
    rw [key]
    unfold legal colour
    simp [ha]
  · have : (validActions n s.cur s.adj s.colors).length ≤ a := by rw [validActions_length]; omega
    unfold legal
    simp [List.getD_eq_getElem?_getD, List.getElem?_eq_none this, ha]

theorem step_fst (n : Nat) (s : State) (a : Int) :
    (step n s a).1 = { adj := s.adj, colors := Jx.setWD s.colors s.cur a, cur := (s.cur + 1) % (n : Int),
                       mask := validActions n ((s.cur + 1) % (n : Int)) s.adj (Jx.setWD s.colors s.cur a) } := rfl

theorem step_WF (n : Nat) (s : State) (a : Int) (h : WF n s) (ha : -1 ≤ a) : WF n (step n s a).1 := by
  obtain ⟨hcl, hadj, hrows, hc, h0, h1⟩ := h
  rw [step_fst]
  refine ⟨by simp [Jx.setWD_length, hcl], hadj, hrows, ?_, ?_, ?_⟩
  · intro c hcm
    simp only [] at hcm
    unfold Jx.setWD at hcm
    simp only [] at hcm
    split at hcm
    · exact hc c hcm
    · split at hcm
      · exact hc c hcm
      · rcases List.mem_or_eq_of_mem_set hcm with h | h
        · exact hc c h
        · omega
  · exact Int.emod_nonneg _ (by omega)
  · exact Int.emod_lt_of_pos _ (by omega)

/-- the invariant (well-formed, cached mask = mask of the current node) is preserved by every step -/
theorem step_Inv (n : Nat) (s : State) (a : Int) (h : WF n s) (ha : -1 ≤ a) : Inv n (step n s a).1 :=
  ⟨step_WF n s a h ha, by rw [step_fst]⟩

/-- C04 (cached mask, after the fix of the stale-colours defect): the mask handed out by `step` is
exactly the set of colours legal for the next node in the NEW state -/
theorem step_mask_iff_legal (n : Nat) (s : State) (a : Int) (b : Nat) (h : WF n s) (ha : -1 ≤ a) :
    (step n s a).1.mask.getD b false = true ↔ legal n (step n s a).1 b := by
  have hi := step_Inv n s a h ha
  rw [hi.2]
  exact mask_iff_legal n _ b hi.1

theorem reset_Inv (n : Nat) (adj : List (List Bool)) (hn : 0 < n) (hadj : adj.length = n)
    (hrows : ∀ row ∈ adj, row.length = n) : Inv n (reset n adj).1 := by
  have hwf : WF n (reset n adj).1 := by
    refine ⟨by simp [reset], hadj, hrows, ?_, by simp [reset], by simp [reset]; omega⟩
    intro c hcm
    simp [reset] at hcm
    omega
  refine ⟨hwf, ?_⟩
  apply List.ext_getElem?
  intro b
  by_cases hb : b < n
  · have h1 := mask_iff_legal n (reset n adj).1 b hwf
    have h2 : legal n (reset n adj).1 b := by
      refine ⟨hb, ?_⟩
      intro j hj _
      simp [colour, reset, List.getD_eq_getElem?_getD, hj]
    have h3 := h1.2 h2
    have hl : b < (validActions n (reset n adj).1.cur (reset n adj).1.adj (reset n adj).1.colors).length := by
      rw [validActions_length]; exact hb
    rw [List.getD_eq_getElem?_getD, List.getElem?_eq_getElem hl] at h3
    rw [List.getElem?_eq_getElem hl]
    simp at h3
    simp [reset, hb]
    simpa [reset] using h3
  · have hl : (validActions n (reset n adj).1.cur (reset n adj).1.adj (reset n adj).1.colors).length ≤ b := by
      rw [validActions_length]; omega
    rw [List.getElem?_eq_none hl]
    simp [reset, hb]

/-- the environment's own validity test (on the cached mask) agrees with the rules -/
theorem invalid_iff_not_legal (n : Nat) (s : State) (a : Nat) (h : Inv n s) (ha : a < n) :
    (!(Jx.getWC s.mask false (a : Int))) = true ↔ ¬ legal n s a := by
  have hl : a < s.mask.length := by rw [h.2, validActions_length]; exact ha
  rw [Jx.getWC_nat _ _ hl, h.2, ← mask_iff_legal n s a h.1]
  simp


theorem mem_ins (x y : Int) (l : List Int) : y ∈ ins x l ↔ y = x ∨ y ∈ l := by
  induction l with
  | nil => simp [ins]
  | cons z zs ih =>
    unfold ins
    split
    · simp
    · split
      · subst_vars; simp
      · simp [ih]; grind

theorem sorted_ins (x : Int) (l : List Int) (h : l.Pairwise (· < ·)) : (ins x l).Pairwise (· < ·) := by
  induction l with
  | nil => simp [ins]
  | cons z zs ih =>
    unfold ins
    split
    · rename_i hxz
      rw [List.pairwise_cons] at h ⊢
      refine ⟨?_, List.pairwise_cons.2 h⟩
      intro w hw
      rcases List.mem_cons.1 hw with e | e
      · omega
      · have := h.1 w e; omega
    · split
      · exact h
      · rw [List.pairwise_cons] at h ⊢
        refine ⟨?_, ih h.2⟩
        intro w hw
        rcases (mem_ins x w zs).1 hw with e | e
        · omega
        · exact h.1 w e

theorem length_ins (x : Int) (l : List Int) : (ins x l).length ≤ l.length + 1 := by
  induction l with
  | nil => simp [ins]
  | cons z zs ih => unfold ins; split <;> (try split) <;> simp <;> omega

theorem mem_uniqSorted (y : Int) (xs : List Int) : y ∈ uniqSorted xs ↔ y ∈ xs := by
  induction xs with
  | nil => simp [uniqSorted]
  | cons x xs ih =>
    have : uniqSorted (x :: xs) = ins x (uniqSorted xs) := rfl
    rw [this, mem_ins, ih]; simp

theorem sorted_uniqSorted (xs : List Int) : (uniqSorted xs).Pairwise (· < ·) := by
  induction xs with
  | nil => simp [uniqSorted]
  | cons x xs ih => exact sorted_ins x _ ih

theorem length_uniqSorted (xs : List Int) : (uniqSorted xs).length ≤ xs.length := by
  induction xs with
  | nil => simp [uniqSorted]
  | cons x xs ih =>
    have : uniqSorted (x :: xs) = ins x (uniqSorted xs) := rfl
    rw [this]; have := length_ins x (uniqSorted xs); simp; omega

theorem mem_distinct (y : Int) (l : List Int) : y ∈ distinct l ↔ y ∈ l := by
  induction l with
  | nil => simp [distinct]
  | cons x xs ih =>
    unfold distinct
    split
    · rw [ih]; simp; intro e; subst e; assumption
    · simp [ih]

theorem nodup_distinct (l : List Int) : (distinct l).Nodup := by
  induction l with
  | nil => simp [distinct]
  | cons x xs ih =>
    unfold distinct
    split
    · exact ih
    · rw [List.nodup_cons]; exact ⟨by rw [mem_distinct]; assumption, ih⟩

/-- the L1 count via `jnp.unique(…, size=n, fill_value=-1)` is the number of colours in use -/
theorem numUnique_eq (n : Nat) (colors : List Int) (h : colors.length ≤ n) :
    numUnique n colors = usedColours colors := by
  unfold numUnique uniqueSized usedColours
  simp only []
  have hl := length_uniqSorted colors
  rw [List.take_of_length_le (by simp; omega)]
  rw [List.filter_append]
  have : (List.replicate (n - (uniqSorted colors).length) (-1 : Int)).filter (fun c => decide (c ≥ 0)) = [] := by
    simp
  rw [this, List.append_nil]
  apply List.Perm.length_eq
  apply (List.perm_ext_iff_of_nodup ?_ (nodup_distinct _)).2
  · intro a
    rw [mem_distinct]
    simp [mem_uniqSorted]
  · apply List.Pairwise.filter
    exact (sorted_uniqSorted colors).imp (fun h => by omega)

theorem step_snd (n : Nat) (s : State) (a : Int) :
    (step n s a).2 =
      condLast ((Jx.setWD s.colors s.cur a).all (fun c => decide (c ≥ 0)) || !(Jx.getWC s.mask false a))
        [if (!(Jx.getWC s.mask false a)) = true then -((n : Nat) : Rat)
         else if (Jx.setWD s.colors s.cur a).all (fun c => decide (c ≥ 0)) = true
              then -((numUnique n (Jx.setWD s.colors s.cur a) : Nat) : Rat) else 0]
        (obsOf (step n s a).1) := rfl

/-- colours after a step: only the current node changes -/
theorem colour_step (n : Nat) (s : State) (a : Int) (h : WF n s) (j : Nat) :
    colour (step n s a).1 j = if j = s.cur.toNat then a else colour s j := by
  obtain ⟨hcl, hadj, hrows, hc, h0, h1⟩ := h
  have hcur : s.cur = ((s.cur.toNat : Nat) : Int) := by omega
  rw [step_fst]
  unfold colour
  simp only []
  rw [hcur, Jx.setWD_nat _ _ (by omega : s.cur.toNat < s.colors.length)]
  simp only [List.getD_eq_getElem?_getD, List.getElem?_set]
  have : (↑s.cur.toNat : Int).toNat = s.cur.toNat := by omega
  rw [this]
  by_cases e : j = s.cur.toNat
  · subst e
    have : s.cur.toNat < s.colors.length := by omega
    simp [this]
  · have : ¬ s.cur.toNat = j := fun x => e x.symm
    simp [e, this]

/-- C05: an illegal colour ends the episode with reward `-n`; the graph and the colours of the other
nodes are untouched (the rejected colour IS written to the current node of the terminal state) -/
theorem illegal_terminates (n : Nat) (s : State) (a : Nat) (h : Inv n s) (ha : a < n)
    (hl : ¬ legal n s a) :
    (step n s a).2.stepType = .last ∧ (step n s a).2.reward = [-((n : Nat) : Rat)] ∧
    (step n s a).2.discount = [0] ∧ (step n s a).1.adj = s.adj ∧
    ∀ j, j ≠ s.cur.toNat → colour (step n s a).1 j = colour s j := by
  have hinv := (invalid_iff_not_legal n s a h ha).2 hl
  have e : (step n s a).2 = termination [-((n : Nat) : Rat)] (obsOf (step n s a).1) := by
    rw [step_snd]
    simp only [hinv, Bool.or_true, condLast, if_true]
  rw [e]
  refine ⟨rfl, rfl, rfl, rfl, ?_⟩
  intro j hj
  rw [colour_step n s a h.1 j]
  simp [hj]

/-- C06: colouring the current node with a legal colour keeps the colouring proper -/
theorem step_feasible (n : Nat) (s : State) (a : Nat) (hw : WF n s) (hg : GraphOK n s.adj)
    (hf : Feasible n s) (hl : legal n s a) : Feasible n (step n s a).1 := by
  intro i hi j hj he hci
  have hadj : (step n s a).1.adj = s.adj := rfl
  rw [hadj] at he
  rw [colour_step n s a hw i] at hci ⊢
  rw [colour_step n s a hw j]
  obtain ⟨_, _, hsym, hloop⟩ := hg
  by_cases ei : i = s.cur.toNat
  · by_cases ej : j = s.cur.toNat
    · subst ei; subst ej
      rw [hloop _ hi] at he; cases he
    · simp only [ei, ej, if_true, if_false]
      rw [ei] at he
      exact fun e => hl.2 j hj he e.symm
  · by_cases ej : j = s.cur.toNat
    · simp only [ei, ej, if_true, if_false]
      rw [ej, hsym i hi _ (by omega)] at he
      exact hl.2 i hi he
    · simp only [ei, ej, if_false] at hci ⊢
      exact hf i hi j hj he hci

theorem reset_feasible (n : Nat) (adj : List (List Bool)) : Feasible n (reset n adj).1 := by
  intro i hi j hj _ hci
  simp [colour, reset, List.getD_eq_getElem?_getD, hi] at hci

/-- C06: an episode that ends with an accepted move ends with every node coloured -/
theorem complete_is_solution (n : Nat) (s : State) (a : Int) (hw : WF n s)
    (hf : Feasible n (step n s a).1) (hv : Jx.getWC s.mask false a = true)
    (hlast : (step n s a).2.stepType = .last) : IsSolution n (step n s a).1 := by
  refine ⟨hf, by rw [step_fst]; simp [Jx.setWD_length, hw.1], ?_⟩
  rw [step_snd] at hlast
  simp only [hv, Bool.not_true, Bool.or_false, condLast] at hlast
  split at hlast
  · rename_i hall
    rw [step_fst]
    simpa using hall
  · simp [transition] at hlast

/-- C08: every accepted move earns 0 until the colouring is complete, and then minus the number of
colours in use in the final state; the episode ends exactly then -/
theorem reward_valid (n : Nat) (s : State) (a : Int) (hw : WF n s)
    (hv : Jx.getWC s.mask false a = true) :
    let all := (step n s a).1.colors.all (fun c => decide (0 ≤ c))
    (step n s a).2.reward = [if all then objective (step n s a).1 else 0] ∧
    ((step n s a).2.stepType = .last ↔ all = true) := by
  simp only []
  rw [step_snd, step_fst]
  simp only [hv, Bool.not_true, Bool.or_false, objective]
  have hnu : numUnique n (Jx.setWD s.colors s.cur a) = usedColours (Jx.setWD s.colors s.cur a) :=
    numUnique_eq n _ (by rw [Jx.setWD_length, hw.1]; exact Nat.le_refl _)
  rw [hnu]
  constructor
  · unfold condLast
    split <;> simp_all [termination, transition]
  · unfold condLast
    split <;> simp_all [termination, transition]


/-- under the invariant the cached mask is the list of legal colours -/
theorem mask_eq_legal (n : Nat) (s : State) (h : Inv n s) :
    s.mask = (List.range n).map (fun a => decide (legal n s a)) := by
  apply List.ext_getElem?
  intro b
  have hlen : s.mask.length = n := by rw [h.2, validActions_length]
  by_cases hb : b < n
  · have h1 := mask_iff_legal n s b h.1
    rw [← h.2] at h1
    have hl : b < s.mask.length := by omega
    rw [List.getD_eq_getElem?_getD, List.getElem?_eq_getElem hl] at h1
    rw [List.getElem?_eq_getElem hl]
    simp only [Option.getD_some] at h1
    simp only [List.getElem?_map, List.getElem?_range hb, Option.map_some]
    congr 1
    cases hm : s.mask[b] <;> simp_all
  · rw [List.getElem?_eq_none (by omega)]
    simp [hb]

/-- C12: the observation returned by `step` is the documented view of the new state -/
theorem obs_faithful (n : Nat) (s : State) (a : Int) (h : WF n s) (ha : -1 ≤ a) :
    (step n s a).2.obs = observe n (step n s a).1 := by
  have hi := step_Inv n s a h ha
  have e : (step n s a).2.obs = obsOf (step n s a).1 := by
    rw [step_snd]; unfold condLast; split <;> rfl
  rw [e]
  unfold obsOf observe
  rw [← mask_eq_legal n _ hi]

theorem reset_obs_faithful (n : Nat) (adj : List (List Bool)) (hn : 0 < n) (hadj : adj.length = n)
    (hrows : ∀ row ∈ adj, row.length = n) : (reset n adj).2.obs = observe n (reset n adj).1 := by
  have hi := reset_Inv n adj hn hadj hrows
  show obsOf (reset n adj).1 = _
  unfold obsOf observe
  rw [← mask_eq_legal n _ hi]

theorem all_nonneg_iff (n : Nat) (s : State) (hl : s.colors.length = n) :
    (∀ c ∈ s.colors, 0 ≤ c) ↔ ∀ j, j < n → 0 ≤ colour s j := by
  constructor
  · intro h j hj
    unfold colour
    have : j < s.colors.length := by omega
    rw [List.getD_eq_getElem?_getD, List.getElem?_eq_getElem this]
    exact h _ (List.getElem_mem _)
  · intro h c hc
    obtain ⟨j, hj, e⟩ := List.mem_iff_getElem.1 hc
    have := h j (by omega)
    unfold colour at this
    rw [List.getD_eq_getElem?_getD, List.getElem?_eq_getElem hj] at this
    simpa [e] using this

/-- C11: a step that does not end the episode moves on to the next node, which still exists, and all
nodes before it are coloured.  Hence `cur` counts the steps and an episode has at most `n` steps. -/
theorem progress (n : Nat) (s : State) (a : Int) (hw : WF n s) (hp : PrefixColoured s) (ha : 0 ≤ a)
    (hnl : (step n s a).2.stepType ≠ .last) :
    (step n s a).1.cur = s.cur + 1 ∧ s.cur + 1 < n ∧ PrefixColoured (step n s a).1 := by
  have hw' := step_WF n s a hw (by omega)
  obtain ⟨hcl, hadj, hrows, hc, h0, h1⟩ := hw
  have hlt : s.cur + 1 < n := by
    by_cases hh : s.cur + 1 < n
    · exact hh
    · exfalso; apply hnl
      have hall : ∀ c ∈ (step n s a).1.colors, 0 ≤ c := by
        rw [all_nonneg_iff n _ hw'.1]
        intro j hj
        rw [colour_step n s a ⟨hcl, hadj, hrows, hc, h0, h1⟩ j]
        split
        · exact ha
        · exact hp j (by omega)
      rw [step_snd]
      have : (Jx.setWD s.colors s.cur a).all (fun c => decide (c ≥ 0)) = true := by
        rw [step_fst] at hall; simpa using hall
      simp [this, condLast, termination]
  have hcur : (step n s a).1.cur = s.cur + 1 := by
    rw [step_fst]; simp only []
    exact Int.emod_eq_of_lt (by omega) hlt
  refine ⟨hcur, hlt, ?_⟩
  intro j hj
  rw [hcur] at hj
  rw [colour_step n s a ⟨hcl, hadj, hrows, hc, h0, h1⟩ j]
  split
  · exact ha
  · exact hp j (by omega)

theorem reset_prefixColoured (n : Nat) (adj : List (List Bool)) : PrefixColoured (reset n adj).1 := by
  intro j hj; simp [reset] at hj


theorem legal_congr (n : Nat) (s t : State) (b : Nat) (h1 : s.adj = t.adj) (h2 : s.colors = t.colors)
    (h3 : s.cur = t.cur) : legal n s b ↔ legal n t b := by
  unfold legal colour; rw [h1, h2, h3]

theorem state_ext (s t : State) (h1 : s.adj = t.adj) (h2 : s.colors = t.colors) (h3 : s.cur = t.cur)
    (h4 : s.mask = t.mask) : s = t := by
  cases s; cases t; simp_all

theorem step_snd_valid (n : Nat) (s : State) (a : Int) (hw : WF n s) (ha : -1 ≤ a)
    (hv : Jx.getWC s.mask false a = true) :
    (step n s a).2 = condLast ((step n s a).1.colors.all (fun c => decide (0 ≤ c)))
      [if (step n s a).1.colors.all (fun c => decide (0 ≤ c)) = true then objective (step n s a).1 else 0]
      (observe n (step n s a).1) := by
  have hob := obs_faithful n s a hw ha
  have e : (step n s a).2.obs = obsOf (step n s a).1 := by
    rw [step_snd]; unfold condLast; split <;> rfl
  rw [e] at hob
  rw [← hob, step_snd]
  have hnu : numUnique n (Jx.setWD s.colors s.cur a) = usedColours (Jx.setWD s.colors s.cur a) :=
    numUnique_eq n _ (by rw [Jx.setWD_length, hw.1]; exact Nat.le_refl _)
  rw [hnu]
  simp only [hv, Bool.not_true, Bool.or_false, Bool.false_eq_true, if_false, objective, ge_iff_le]
  rfl

/-- C09: on every reachable state the transliterated `step` IS the rule book `stepSpec` -/
theorem step_eq_spec (n : Nat) (s : State) (a : Nat) (h : Inv n s) (ha : a < n) :
    step n s (a : Int) = stepSpec n s a := by
  obtain ⟨hw, hm⟩ := h
  have hw0 := hw
  obtain ⟨hcl, hadj, hrows, hc, h0, h1⟩ := hw
  have hcur : s.cur = ((s.cur.toNat : Nat) : Int) := by omega
  have hi := step_Inv n s (a : Int) hw0 (by omega)
  -- the successor state
  have hcolors : Jx.setWD s.colors s.cur (a : Int) = List.set s.colors s.cur.toNat (a : Int) := by
    conv => lhs; rw [hcur]
    exact Jx.setWD_nat _ _ (by omega)
  have hnext : (s.cur + 1) % (n : Int) = if s.cur + 1 = (n : Int) then 0 else s.cur + 1 := by
    split
    · rename_i e; rw [e]; exact Int.emod_self
    · exact Int.emod_eq_of_lt (by omega) (by omega)
  have hS : (step n s (a : Int)).1 = (stepSpec n s a).1 := by
    have e1 : (stepSpec n s a).1 =
        { adj := s.adj, colors := List.set s.colors s.cur.toNat (a : Int),
          cur := if s.cur + 1 = (n : Int) then 0 else s.cur + 1,
          mask := (List.range n).map (fun b => decide (legal n
            { adj := s.adj, colors := List.set s.colors s.cur.toNat (a : Int),
              cur := if s.cur + 1 = (n : Int) then 0 else s.cur + 1, mask := [] } b)) } := by
      unfold stepSpec; simp only []; split
      · split <;> rfl
      · rfl
    rw [e1]
    have e2 := mask_eq_legal n _ hi
    have c1 : (step n s (a : Int)).1.colors = List.set s.colors s.cur.toNat (a : Int) := hcolors
    have c2 : (step n s (a : Int)).1.cur = if s.cur + 1 = (n : Int) then 0 else s.cur + 1 := hnext
    have c0 : (step n s (a : Int)).1.adj = s.adj := rfl
    apply state_ext
    · exact c0
    · exact c1
    · exact c2
    rw [e2]
    apply List.map_congr_left
    intro b _
    exact decide_eq_decide.2 (legal_congr n _ _ b c0 c1 c2)
  apply Prod.ext hS
  by_cases hl : legal n s a
  · have hv : Jx.getWC s.mask false (a : Int) = true := by
      cases hgv : Jx.getWC s.mask false (a : Int)
      · exact absurd hl ((invalid_iff_not_legal n s a ⟨hw0, hm⟩ ha).1 (by simp [hgv]))
      · rfl
    have e1 : (stepSpec n s a).2 =
        if ∀ c ∈ (stepSpec n s a).1.colors, 0 ≤ c
        then termination [objective (stepSpec n s a).1] (observe n (stepSpec n s a).1)
        else transition [0] (observe n (stepSpec n s a).1) := by
      unfold stepSpec; simp only [hl, if_true]; split <;> rfl
    rw [e1, ← hS, step_snd_valid n s a hw0 (by omega) hv]
    cases hall : (step n s (a : Int)).1.colors.all (fun c => decide (0 ≤ c))
    · have hall' : ¬ ∀ c ∈ (step n s (a : Int)).1.colors, 0 ≤ c := by
        intro hh; have : (step n s (a : Int)).1.colors.all (fun c => decide (0 ≤ c)) = true := by simpa using hh
        rw [hall] at this; cases this
      rw [if_neg hall']; rfl
    · have hall' : ∀ c ∈ (step n s (a : Int)).1.colors, 0 ≤ c := by simpa using hall
      rw [if_pos hall']; rfl
  · have e1 : (stepSpec n s a).2 = termination [-((n : Nat) : Rat)] (observe n (stepSpec n s a).1) := by
      unfold stepSpec; simp only [hl, if_false]
    rw [e1, ← hS, ← obs_faithful n s a hw0 (by omega)]
    have hinv := (invalid_iff_not_legal n s a ⟨hw0, hm⟩ ha).2 hl
    rw [step_snd]
    simp only [hinv, Bool.or_true, condLast, if_true]
    rfl


theorem edge_generate (n : Nat) (B : List (List Bool)) (i j : Nat) (hi : i < n) (hj : j < n) :
    edge (generate n B) i j =
      ((decide (j < i) && (B.getD i []).getD j false) || (decide (i < j) && (B.getD j []).getD i false)) := by
  unfold edge generate
  simp [List.getD_eq_getElem?_getD, hi, hj]

/-- C10: whatever the thresholded random matrix `B` is, `tril(B,-1) + tril(B,-1).T` is an `n × n`
symmetric matrix without self-loops -/
theorem generate_ok (n : Nat) (B : List (List Bool)) : GraphOK n (generate n B) := by
  refine ⟨by simp [generate], ?_, ?_, ?_⟩
  · intro row hrow
    simp [generate] at hrow
    obtain ⟨i, _, e⟩ := hrow
    rw [← e]; simp
  · intro i hi j hj
    rw [edge_generate n B i j hi hj, edge_generate n B j i hj hi]
    exact Bool.or_comm _ _
  · intro i hi
    rw [edge_generate n B i i hi hi]
    simp

/-- C06 along whole episodes: every state reached from `reset` by legal colours is a proper partial
colouring (and satisfies the invariants the step theorems need) -/
theorem legalReach_invariants (n : Nat) (adj : List (List Bool)) (hn : 0 < n) (hg : GraphOK n adj)
    (s : State) (hr : LegalReach n adj s) :
    Feasible n s ∧ Inv n s ∧ PrefixColoured s ∧ s.adj = adj := by
  induction hr with
  | reset => exact ⟨reset_feasible n adj, reset_Inv n adj hn hg.1 hg.2.1, reset_prefixColoured n adj, rfl⟩
  | step s a hr hl hnl ih =>
    obtain ⟨hf, hi, hp, ha⟩ := ih
    have hg' : GraphOK n s.adj := by rw [ha]; exact hg
    have h0 : (0 : Int) ≤ (a : Int) := by omega
    refine ⟨step_feasible n s a hi.1 hg' hf hl, step_Inv n s a hi.1 (by omega),
      (progress n s a hi.1 hp h0 hnl).2.2, ?_⟩
    rw [step_fst]; exact ha

end GraphColoring
