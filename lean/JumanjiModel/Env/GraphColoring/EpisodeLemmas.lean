/-
Whole-episode statements for GraphColoring (C08): the return of a legal episode played to completion is minus
the number of distinct colours of the final colouring, which is a complete proper colouring.
Helper lemmas + the real proofs; the thin property theorems are in Props/Env/GraphColoring.lean.
-/
import JumanjiModel.Env.GraphColoring.Lemmas
namespace GraphColoring
open Jm

/-- state after playing the colours `as` from `s` (cast to `Int` as in `LegalReach.step`) -/
def runState (n : Nat) (s : State) : List Nat → State
  | [] => s
  | a :: as => runState n (step n s (a : Int)).1 as

/-- sum of the rewards of playing `as` from `s` -/
def runReturn (n : Nat) (s : State) : List Nat → Rat
  | [] => 0
  | a :: as => (step n s (a : Int)).2.reward.sum + runReturn n (step n s (a : Int)).1 as

/-- `as` is a legal episode from `s` run to completion: every colour is legal when it is played, the last
step is LAST and no earlier one is -/
def legalEpisode (n : Nat) (s : State) : List Nat → Prop
  | [] => False
  | [a] => legal n s a ∧ (step n s (a : Int)).2.stepType = .last
  | a :: b :: as =>
      legal n s a ∧ (step n s (a : Int)).2.stepType ≠ .last ∧ legalEpisode n (step n s (a : Int)).1 (b :: as)

instance legalEpisodeDec (n : Nat) : (s : State) → (as : List Nat) → Decidable (legalEpisode n s as)
  | _, [] => isFalse (fun h => h)
  | s, [a] => by unfold legalEpisode; infer_instance
  | s, a :: b :: as => by
      unfold legalEpisode
      have := legalEpisodeDec n (step n s (a : Int)).1 (b :: as)
      infer_instance

/-- under the invariant a legal colour passes the environment's own validity test (cached mask) -/
theorem legal_mask (n : Nat) (s : State) (a : Nat) (h : Inv n s) (hl : legal n s a) :
    Jx.getWC s.mask false (a : Int) = true := by
  have := invalid_iff_not_legal n s a h hl.1
  cases hm : Jx.getWC s.mask false (a : Int) with
  | true => rfl
  | false => rw [hm] at this; exact absurd hl (this.1 rfl)

/-- a legal move that does not end the episode earns 0 -/
theorem legal_mid_reward (n : Nat) (s : State) (a : Nat) (h : Inv n s) (hl : legal n s a)
    (hnl : (step n s (a : Int)).2.stepType ≠ .last) : (step n s (a : Int)).2.reward.sum = 0 := by
  have hr := reward_valid n s a h.1 (legal_mask n s a h hl)
  simp only [] at hr
  cases hall : (step n s (a : Int)).1.colors.all (fun c => decide (0 ≤ c)) with
  | true => exact absurd (hr.2.2 hall) hnl
  | false => rw [hr.1, hall]; simp [Rat.add_zero]

/-- a legal move that ends the episode earns the objective of the final state, in which every node is
coloured -/
theorem legal_last_reward (n : Nat) (s : State) (a : Nat) (h : Inv n s) (hl : legal n s a)
    (hlast : (step n s (a : Int)).2.stepType = .last) :
    (step n s (a : Int)).2.reward.sum = objective (step n s (a : Int)).1 ∧
    ∀ c ∈ (step n s (a : Int)).1.colors, 0 ≤ c := by
  have hr := reward_valid n s a h.1 (legal_mask n s a h hl)
  simp only [] at hr
  have hall := hr.2.1 hlast
  refine ⟨by rw [hr.1, hall]; simp [Rat.add_zero], ?_⟩
  simpa using hall

/-- C08 from any state satisfying the invariant: return = objective of the final state = −(distinct colours),
and the final colouring is complete -/
theorem episode_return_from (n : Nat) (s : State) (as : List Nat) (h : Inv n s) (he : legalEpisode n s as) :
    runReturn n s as = objective (runState n s as) ∧ ∀ c ∈ (runState n s as).colors, 0 ≤ c := by
  induction as generalizing s with
  | nil => exact absurd he (fun h => h)
  | cons a as ih =>
    cases as with
    | nil =>
      simp only [runReturn, runState]
      have := legal_last_reward n s a h he.1 he.2
      exact ⟨by rw [this.1]; simp [Rat.add_zero], this.2⟩
    | cons b as =>
      have h0 := legal_mid_reward n s a h he.1 he.2.1
      have hi : Inv n (step n s (a : Int)).1 := step_Inv n s a h.1 (by omega)
      have := ih (step n s (a : Int)).1 hi he.2.2
      simp only [runReturn, runState] at this ⊢
      rw [h0, this.1]
      exact ⟨by simp [Rat.zero_add], this.2⟩

/-- with a proper partial colouring on a symmetric loop-free graph at the start, the final state is a complete
proper colouring -/
theorem episode_solution_from (n : Nat) (s : State) (as : List Nat) (h : Inv n s) (hg : GraphOK n s.adj)
    (hf : Feasible n s) (he : legalEpisode n s as) : IsSolution n (runState n s as) := by
  induction as generalizing s with
  | nil => exact absurd he (fun h => h)
  | cons a as ih =>
    have hf' : Feasible n (step n s (a : Int)).1 := by
      cases as with
      | nil => exact step_feasible n s a h.1 hg hf he.1
      | cons b as => exact step_feasible n s a h.1 hg hf he.1
    cases as with
    | nil =>
      simp only [runState]
      exact complete_is_solution n s a h.1 hf' (legal_mask n s a h he.1) he.2
    | cons b as =>
      have hi : Inv n (step n s (a : Int)).1 := step_Inv n s a h.1 (by omega)
      have := ih (step n s (a : Int)).1 hi (by rw [step_fst]; exact hg) hf' he.2.2
      simpa only [runState] using this

theorem legalEpisode_pos (n : Nat) (s : State) (as : List Nat) (he : legalEpisode n s as) : 0 < n := by
  cases as with
  | nil => exact absurd he (fun h => h)
  | cons a as =>
    cases as with
    | nil => have := he.1.1; omega
    | cons b as => have := he.1.1; omega

/-- C08 from `reset`: only the shape of the adjacency matrix is needed -/
theorem episode_return (n : Nat) (adj : List (List Bool)) (hadj : adj.length = n)
    (hrows : ∀ row ∈ adj, row.length = n) (as : List Nat) (he : legalEpisode n (reset n adj).1 as) :
    runReturn n (reset n adj).1 as = objective (runState n (reset n adj).1 as) ∧
    ∀ c ∈ (runState n (reset n adj).1 as).colors, 0 ≤ c :=
  episode_return_from n _ as (reset_Inv n adj (legalEpisode_pos n _ as he) hadj hrows) he

/-- from `reset` on a symmetric loop-free graph the final state is a complete proper colouring -/
theorem episode_solution (n : Nat) (adj : List (List Bool)) (hg : GraphOK n adj) (as : List Nat)
    (he : legalEpisode n (reset n adj).1 as) : IsSolution n (runState n (reset n adj).1 as) :=
  episode_solution_from n _ as (reset_Inv n adj (legalEpisode_pos n _ as he) hg.1 hg.2.1) hg
    (reset_feasible n adj) he

/-- a legal episode has at least one step -/
theorem legalEpisode_ne_nil (n : Nat) (s : State) (as : List Nat) (he : legalEpisode n s as) : as ≠ [] := by
  intro e; subst e; exact he

end GraphColoring
