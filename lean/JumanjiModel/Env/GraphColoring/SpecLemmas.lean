/-
GraphColoring — wave 3 (statement audit of Props/Env/GraphColoring.lean + C01 spec membership).

* the declared specs as `Sp` values (`obsSpec n`, `actionSpec n`), the model observation as spec-level arrays (`toNValue`) and
  membership of what `reset` / `step` emit (C01), with the invariant `SpecInv` established by `reset` and preserved by
  every in-spec step;
* the reaction of `step` itself to legal / illegal colours (C04) and completion through `step` (C06);
* whole episodes: the first LAST comes within `n` steps of `reset` whatever is played (C11).
-/
import JumanjiModel.Env.GraphColoring.Lemmas
import JumanjiModel.Env.GraphColoring.Bounds
import JumanjiModel.Env.GraphColoring.EpisodeLemmas
import JumanjiModel.Env.GraphColoring.GenLemmas
import JumanjiModel.Env.SpecValidW3
import JumanjiModel.Core.Episode
namespace GraphColoring
open Jm Sp PzS PzS3 PzB

/-! ### the declared specs (env.py `observation_spec`, `action_spec`) -/

/-- `observation_spec` (in the order of the declaration): `adj_matrix` BoundedArray((n, n), bool), `action_mask`
BoundedArray((n,), bool), `colors` BoundedArray((n,), int32, −1, n − 1), `current_node_index` BoundedArray((), int32, 0, n − 1) -/
def obsSpec (n : Nat) : Sp.Nested :=
  [("adj_matrix", .bounded [n, n] .bool "adj_matrix" [] [0] [] [1]),
   ("action_mask", .bounded [n] .bool "action_mask" [] [0] [] [1]),
   ("colors", .bounded [n] .int32 "colors" [] [((-1 : Int) : Rat)] [] [((((n : Nat) : Int) - 1 : Int) : Rat)]),
   ("current_node_index", .bounded [] .int32 "current_node_index" [] [((0 : Int) : Rat)] []
      [((((n : Nat) : Int) - 1 : Int) : Rat)])]

/-- `action_spec`: DiscreteArray(num_nodes) -/
def actionSpec (n : Nat) : Leaf := .discrete n .int32 "action"

/-- a model observation as the arrays the implementation emits -/
def toNValue (o : Obs) : NValue :=
  [("adj_matrix", ⟨gridShape o.adj, .bool, ofBools (List.flatten o.adj)⟩),
   ("action_mask", ⟨[o.mask.length], .bool, ofBools o.mask⟩),
   ("colors", ⟨[o.colors.length], .int32, ofInts o.colors⟩),
   ("current_node_index", ⟨[], .int32, [(o.cur : Rat)]⟩)]

def actionArr (a : Int) : Arr := ⟨[], .int32, [(a : Rat)]⟩

/-- what `reset` establishes and every in-spec `step` preserves: shapes (`WF`), colours in [−1, n − 1] and current node in
[0, n − 1] (`InRange`), and a mask of `n` entries -/
def SpecInv (n : Nat) (s : State) : Prop := WF n s ∧ InRange n s ∧ s.mask.length = n

instance (n : Nat) (s : State) : Decidable (SpecInv n s) := by unfold SpecInv; infer_instance

theorem obs_valid (n : Nat) (s : State) (h : SpecInv n s) : (obsSpec n).valid (toNValue (obsOf s)) = true := by
  obtain ⟨⟨hcl, hadj, hrows, _, h0, h1⟩, ⟨hcr, _, hcu⟩, hm⟩ := h
  have hn : 0 < n := by omega
  obtain ⟨hsh, hlen⟩ := gridShape_of_rows s.adj n n hadj hrows (by omega)
  have e1 : (Leaf.bounded [n, n] .bool "adj_matrix" [] [0] [] [1]).valid
      ⟨gridShape s.adj, .bool, ofBools (List.flatten s.adj)⟩ = true := by
    rw [hsh]; exact valid_bools _ _ _ (by rw [hlen, prod_two])
  have e2 : (Leaf.bounded [n] .bool "action_mask" [] [0] [] [1]).valid ⟨[s.mask.length], .bool, ofBools s.mask⟩ = true := by
    rw [hm]; exact valid_bools _ _ _ (by rw [hm, prod_one])
  have e3 : (Leaf.bounded [n] .int32 "colors" [] [((-1 : Int) : Rat)] [] [((((n : Nat) : Int) - 1 : Int) : Rat)]).valid
      ⟨[s.colors.length], .int32, ofInts s.colors⟩ = true := by
    rw [hcl]
    exact valid_scalar_bounded _ _ _ _ _ _ (by rw [ofInts, List.length_map, hcl, prod_one])
      (ofInts_bounds s.colors (-1) (((n : Nat) : Int) - 1) hcr)
  have e4 := valid_scalar_int .int32 "current_node_index" 0 (((n : Nat) : Int) - 1) s.cur ⟨h0, hcu⟩
  simp only [Nested.valid, obsSpec, toNValue, obsOf, List.map, List.zipWith, List.all, e1, e2, e3, e4, id,
    Bool.and_self, beq_self_eq_true]

/-- `validate` accepts nothing else -/
theorem obs_valid_only (n : Nat) (o : Obs) (h : (obsSpec n).valid (toNValue o) = true) :
    gridShape o.adj = [n, n] ∧ o.mask.length = n ∧ o.colors.length = n ∧
    (∀ c ∈ o.colors, -1 ≤ c ∧ c ≤ ((n : Nat) : Int) - 1) ∧ 0 ≤ o.cur ∧ o.cur ≤ ((n : Nat) : Int) - 1 := by
  simp only [Nested.valid, obsSpec, toNValue, List.map_cons, List.map_nil, List.zipWith_cons_cons, List.zipWith_nil_right,
    List.all_cons, List.all_nil, id, Bool.and_true, Bool.and_eq_true, beq_self_eq_true, true_and] at h
  obtain ⟨h1, h2, h3, h4⟩ := h
  rw [valid_scalar_bounded_iff] at h1 h2 h3
  rw [valid_scalar_int_iff] at h4
  refine ⟨h1.1, by simpa using h2.1, by simpa using h3.1, ?_, h4.1, h4.2⟩
  intro c hc
  have := h3.2.2.2 (c : Rat) (by simp only [ofInts, List.mem_map]; exact ⟨c, hc, rfl⟩)
  exact ⟨Rat.intCast_le_intCast.mp this.1, Rat.intCast_le_intCast.mp this.2⟩

theorem reset_specInv (n : Nat) (adj : List (List Bool)) (hn : 0 < n) (hadj : adj.length = n)
    (hrows : ∀ row ∈ adj, row.length = n) : SpecInv n (reset n adj).1 :=
  ⟨(reset_Inv n adj hn hadj hrows).1, reset_inRange n adj hn, by simp [reset]⟩

theorem step_specInv (n : Nat) (s : State) (a : Int) (h : SpecInv n s) (ha : -1 ≤ a ∧ a < n) :
    SpecInv n (step n s a).1 :=
  ⟨step_WF n s a h.1 ha.1, step_inRange n s a h.2.1 ha, by rw [step_fst]; exact validActions_length _ _ _ _⟩

theorem runState_specInv (n : Nat) (s : State) (as : List Nat) (h : SpecInv n s) (ha : ∀ a ∈ as, a < n) :
    SpecInv n (runState n s as) := by
  induction as generalizing s with
  | nil => exact h
  | cons a as ih =>
    exact ih _ (step_specInv n s a h ⟨by omega, by have := ha a (by simp); omega⟩) (fun b hb => ha b (by simp [hb]))

theorem reset_obs_valid (n : Nat) (adj : List (List Bool)) (hn : 0 < n) (hadj : adj.length = n)
    (hrows : ∀ row ∈ adj, row.length = n) : (obsSpec n).valid (toNValue (reset n adj).2.obs) = true :=
  obs_valid n _ (reset_specInv n adj hn hadj hrows)

theorem step_obs_valid (n : Nat) (s : State) (a : Int) (h : SpecInv n s) (ha : -1 ≤ a ∧ a < n) :
    (obsSpec n).valid (toNValue (step n s a).2.obs) = true := by
  rw [step_obs]; exact obs_valid n _ (step_specInv n s a h ha)

theorem step_reward_discount_valid (n : Nat) (s : State) (a : Int) :
    rewardSpec.valid (scalarArr (step n s a).2.reward) = true ∧
    discountSpec.valid (scalarArr (step n s a).2.discount) = true := condLast_reward_discount_valid _ _ _

theorem step_protocol (n : Nat) (s : State) (a : Int) : StepOK none false (step n s a).2 = true := condLast_stepOK _ _ _

theorem accepts_generate_value (n : Nat) (hn : 0 < n) (hbig : n ≤ 2147483648) (s : State) (h : SpecInv n s) :
    (actionSpec n).WF = true ∧ (actionSpec n).valid (actionSpec n).generate = true ∧
    (actionSpec n).generate = actionArr 0 ∧ StepOK none false (step n s 0).2 = true ∧
    (obsSpec n).valid (toNValue (step n s 0).2.obs) = true := by
  have hw : (actionSpec n).WF = true := by
    have fitsI : ∀ z : Int, -2147483648 ≤ z → z ≤ 2147483647 → DType.int32.fits ((z : Int) : Rat) = true := by
      intro z h1 h2; simp [DType.fits, DType.intRange, Rat.den_intCast, Rat.num_intCast, h1, h2]
    have hf : DType.int32.fits (((((n : Nat)) : Int) - 1 : Int) : Rat) = true := fitsI _ (by omega) (by omega)
    simp only [actionSpec, Leaf.WF, Leaf.WF0, Leaf.fitsDType, hf]
    simp [DType.isInt]; omega
  refine ⟨hw, Leaf.generate_valid _ hw, ?_, step_protocol n s 0, step_obs_valid n s 0 h ⟨by omega, by omega⟩⟩
  simp [actionSpec, Leaf.generate, Leaf.lower, Leaf.shape, Leaf.dtype, actionArr]

/-! ### C04 / C06: what `step` does with legal and illegal colours -/

/-- the reaction of `step`: an illegal colour gives LAST with reward `−n`; a legal one gives reward 0 and MID, or — exactly
when it completes the colouring — LAST with minus the number of colours used; so, unless the step completes the
colouring, it is LAST iff the colour was illegal -/
theorem step_reaction (n : Nat) (s : State) (a : Nat) (h : Inv n s) (ha : a < n) :
    (¬ legal n s a → (step n s a).2.stepType = .last ∧ (step n s a).2.reward = [-((n : Nat) : Rat)]) ∧
    (legal n s a →
      ((step n s a).2.stepType = .last ↔ ∀ c ∈ (step n s a).1.colors, 0 ≤ c) ∧
      (step n s a).2.reward = [if ∀ c ∈ (step n s a).1.colors, 0 ≤ c then objective (step n s a).1 else 0]) ∧
    ((∃ c ∈ (step n s a).1.colors, c < 0) → ((step n s a).2.stepType = .last ↔ ¬ legal n s a)) := by
  have hill : ¬ legal n s a → (step n s a).2.stepType = .last ∧ (step n s a).2.reward = [-((n : Nat) : Rat)] := by
    intro hl
    have := illegal_terminates n s a h ha hl
    exact ⟨this.1, this.2.1⟩
  have hleg : legal n s a →
      ((step n s a).2.stepType = .last ↔ ∀ c ∈ (step n s a).1.colors, 0 ≤ c) ∧
      (step n s a).2.reward = [if ∀ c ∈ (step n s a).1.colors, 0 ≤ c then objective (step n s a).1 else 0] := by
    intro hl
    have hr := reward_valid n s a h.1 (legal_mask n s a h hl)
    simp only [] at hr
    have hall : ((step n s a).1.colors.all (fun c => decide (0 ≤ c)) = true) ↔ ∀ c ∈ (step n s a).1.colors, 0 ≤ c := by
      simp
    refine ⟨hr.2.trans hall, ?_⟩
    rw [hr.1]
    by_cases hc : ∀ c ∈ (step n s a).1.colors, 0 ≤ c
    · rw [if_pos hc, hall.2 hc]; rfl
    · rw [if_neg hc]
      have : (step n s a).1.colors.all (fun c => decide (0 ≤ c)) = false := by
        cases hb : (step n s a).1.colors.all (fun c => decide (0 ≤ c))
        · rfl
        · exact absurd (hall.1 hb) hc
      rw [this]; rfl
  refine ⟨hill, hleg, ?_⟩
  rintro ⟨c, hc, hneg⟩
  constructor
  · intro hlast hl
    have := ((hleg hl).1.1 hlast) c hc
    omega
  · intro hl; exact (hill hl).1

/-- C06 through `step`: a legal colour that ends the episode, played in a proper partial colouring of a symmetric loop-free
graph, produces a complete proper colouring -/
theorem step_complete_is_solution (n : Nat) (s : State) (a : Nat) (h : Inv n s) (hg : GraphOK n s.adj)
    (hf : Feasible n s) (hl : legal n s a) (hlast : (step n s a).2.stepType = .last) :
    IsSolution n (step n s a).1 :=
  complete_is_solution n s a h.1 (step_feasible n s a h.1 hg hf hl) (legal_mask n s a h hl) hlast

/-- a legal colour keeps the colouring proper, an illegal one breaks it: feasibility of the successor IS legality -/
theorem legal_iff_step_feasible (n : Nat) (s : State) (a : Nat) (h : Inv n s) (hg : GraphOK n s.adj)
    (hf : Feasible n s) (ha : a < n) : legal n s a ↔ Feasible n (step n s a).1 := by
  constructor
  · exact step_feasible n s a h.1 hg hf
  · intro hf'
    refine ⟨ha, fun j hj he hcj => ?_⟩
    have hw := h.1
    have hcur : s.cur.toNat < n := by have := hw.2.2.2.2; omega
    have hadj : (step n s a).1.adj = s.adj := rfl
    have h1 := hf' s.cur.toNat hcur j hj (by rw [hadj]; exact he)
    rw [colour_step n s a hw, colour_step n s a hw] at h1
    simp only [if_true] at h1
    have h2 := h1 (by omega)
    by_cases e : j = s.cur.toNat
    · simp [e] at h2
    · simp only [e, if_false] at h2
      exact h2 hcj.symm

/-! ### C11: whole episodes -/

open Ep in
/-- from a well-formed state whose nodes before the current one are coloured, with `m = n − cur ≥ 1` nodes left: whatever
non-negative actions are played (at least `m` of them), the first LAST timestep comes at some step `k` with `0 < k ≤ m` -/
theorem ends_within (n : Nat) (m : Nat) : ∀ (s : State) (as : List Int), WF n s → PrefixColoured s →
    s.cur + (m : Int) = n → 0 < m → (∀ a ∈ as, 0 ≤ a) → m ≤ as.length →
    ∃ k, firstLastTS ((rollout (step n) s as).map (·.2)) = some k ∧ 0 < k ∧ k ≤ m := by
  induction m with
  | zero => intro s as _ _ _ hm; omega
  | succ m ih =>
    intro s as hw hp hcur _ hpos hlen
    cases as with
    | nil => simp at hlen
    | cons a t =>
      have ha : 0 ≤ a := hpos a (by simp)
      by_cases hlast : (step n s a).2.stepType = .last
      · exact ⟨1, by simp [rollout, firstLastTS, hlast], by omega, by omega⟩
      · obtain ⟨p1, p2, p3⟩ := progress n s a hw hp ha hlast
        have hm : 0 < m := by omega
        obtain ⟨k, hk, hk0, hkm⟩ := ih (step n s a).1 t (step_WF n s a hw (by omega)) p3 (by rw [p1]; omega) hm
          (fun b hb => hpos b (by simp [hb])) (by simp at hlen; omega)
        refine ⟨k + 1, ?_, by omega, by omega⟩
        have hne : ((step n s a).2.stepType == StepType.last) = false := by
          cases hb : ((step n s a).2.stepType == StepType.last)
          · rfl
          · exact absurd (by simpa using hb) hlast
        simp only [rollout, List.map_cons, firstLastTS, hne, Bool.false_eq_true, if_false]
        rw [show firstLastTS (List.map (fun x => x.2) (rollout (step n) (step n s a).1 t)) = some k from hk]
        rfl

/-- the nodes after the current one are not yet coloured (true at `reset`, preserved while the episode runs) -/
def Fresh (n : Nat) (s : State) : Prop := ∀ j, s.cur.toNat < j → j < n → colour s j = -1

theorem reset_fresh (n : Nat) (adj : List (List Bool)) : Fresh n (reset n adj).1 := by
  intro j _ hj
  simp [reset, colour, List.getD_eq_getElem?_getD, hj]

/-- a LEGAL colour for a node that is not the last one does not end the episode, and the invariants move on -/
theorem legal_not_last (n : Nat) (s : State) (a : Nat) (h : Inv n s) (hfr : Fresh n s) (hl : legal n s a)
    (hlt : s.cur + 1 < n) :
    (step n s a).2.stepType ≠ .last ∧ Fresh n (step n s a).1 := by
  have hw := h.1
  have h0 : 0 ≤ s.cur := hw.2.2.2.2.1
  have hw' := step_WF n s a hw (by omega)
  have hr := reward_valid n s a hw (legal_mask n s a h hl)
  simp only [] at hr
  have hnext : colour (step n s a).1 (s.cur.toNat + 1) = -1 := by
    rw [colour_step n s a hw]
    have : ¬ s.cur.toNat + 1 = s.cur.toNat := by omega
    rw [if_neg this]
    exact hfr _ (by omega) (by omega)
  have hnl : (step n s a).2.stepType ≠ .last := by
    intro hlast
    have hall := hr.2.1 hlast
    have : ∀ c ∈ (step n s a).1.colors, 0 ≤ c := by simpa using hall
    have := (all_nonneg_iff n _ hw'.1).1 this (s.cur.toNat + 1) (by omega)
    omega
  refine ⟨hnl, ?_⟩
  have hcur : (step n s a).1.cur = s.cur + 1 := by
    rw [step_fst]; simp only []
    exact Int.emod_eq_of_lt (by omega) hlt
  intro j hj1 hj2
  rw [hcur] at hj1
  rw [colour_step n s a hw]
  have : ¬ j = s.cur.toNat := by omega
  rw [if_neg this]
  exact hfr j (by omega) hj2

open Ep in
/-- never earlier: under LEGAL play from a state with `m = n − cur` nodes left (nodes before the current one coloured, nodes
after it not), the first LAST timestep is number `m` exactly -/
theorem legal_ends_exactly (n : Nat) (m : Nat) : ∀ (s : State) (as : List Nat), Inv n s → PrefixColoured s → Fresh n s →
    s.cur + (m : Int) = n → 0 < m → AllLegal n s as → m ≤ as.length →
    firstLastTS ((rollout (step n) s (as.map (fun (a : Nat) => (a : Int)))).map (·.2)) = some m := by
  induction m with
  | zero => intro s as _ _ _ _ hm; omega
  | succ m ih =>
    intro s as hi hp hfr hcur _ hal hlen
    cases as with
    | nil => simp at hlen
    | cons a t =>
      simp only [AllLegal] at hal
      by_cases hm : m = 0
      · subst hm
        obtain ⟨k, hk, hk0, hk1⟩ := ends_within n 1 s ((a :: t).map (fun (a : Nat) => (a : Int))) hi.1 hp (by omega) (by omega)
          (fun b hb => by simp only [List.mem_map] at hb; obtain ⟨c, _, rfl⟩ := hb; omega) (by simp)
        have : k = 1 := by omega
        subst this; exact hk
      · obtain ⟨hnl, hfr'⟩ := legal_not_last n s a hi hfr hal.1 (by omega)
        obtain ⟨p1, _, p3⟩ := progress n s a hi.1 hp (by omega) hnl
        have hk := ih (step n s a).1 t (step_Inv n s a hi.1 (by omega)) p3 hfr' (by rw [p1]; omega) (by omega) hal.2
          (by simp at hlen; omega)
        have hne : ((step n s a).2.stepType == StepType.last) = false := by
          cases hb : ((step n s a).2.stepType == StepType.last)
          · rfl
          · exact absurd (by simpa using hb) hnl
        simp only [List.map_cons, rollout, firstLastTS, hne, Bool.false_eq_true, if_false]
        rw [show firstLastTS (List.map (fun x => x.2) (rollout (step n) (step n s a).1 (List.map (fun (a : Nat) => (a : Int)) t))) = some m from hk]
        rfl

end GraphColoring
