/-
`jumanji/specs.py`: Array, BoundedArray, DiscreteArray, MultiDiscreteArray and nested Spec;
validate, generate_value, replace, __eq__, __reduce__, and the gym / dm_env conversions.
Import-free.

Arrays (values and bounds) are (shape, dtype, flat row-major data over ℚ).  A nested spec is its
flattened list of (path, leaf spec) pairs — which is how `validate` (tree_map over the dict of
children) and `__eq__` (is_equal_pytree over the dict of children) see it.
-/
namespace Sp

inductive DType | bool | int8 | int16 | int32 | uint8 | uint16 | uint32 | float16 | float32
  deriving DecidableEq, Repr, Inhabited

def DType.isInt : DType → Bool
  | .int8 | .int16 | .int32 | .uint8 | .uint16 | .uint32 => true
  | _ => false

def prod (sh : List Nat) : Nat := sh.foldl (· * ·) 1

structure Arr where
  shape : List Nat
  dtype : DType
  data : List Rat
  deriving DecidableEq, Repr

/-- row-major multi-index of flat position `k` in `shape` (last axis fastest) -/
def unravel : List Nat → Nat → List Nat
  | [], _ => []
  | _ :: rest, k => (k / prod rest) :: unravel rest (k % prod rest)

def ravel : List Nat → List Nat → Nat
  | [], _ => 0
  | _ :: rest, [] => 0 * prod rest
  | _ :: rest, i :: is => i * prod rest + ravel rest is

/-- NumPy broadcasting of an array of shape `src` to `dst` (right-aligned; a source dimension must
be 1 or equal).  `none` = incompatible. -/
def broadcastable (src dst : List Nat) : Bool :=
  src.length ≤ dst.length &&
  (List.zip src.reverse dst.reverse).all (fun (s, d) => s == 1 || s == d)

/-- source multi-index for target multi-index `idx` -/
def srcIndex (src dst idx : List Nat) : List Nat :=
  let pad := dst.length - src.length
  List.zipWith (fun s i => if s == 1 then 0 else i) src (idx.drop pad)

def broadcastTo (src : List Nat) (data : List Rat) (dst : List Nat) : Option (List Rat) :=
  if broadcastable src dst then
    some ((List.range (prod dst)).map (fun k => data.getD (ravel src (srcIndex src dst (unravel dst k))) 0))
  else none

inductive Leaf
  | array (shape : List Nat) (dtype : DType) (name : String)
  | bounded (shape : List Nat) (dtype : DType) (name : String) (minShape : List Nat) (min : List Rat)
      (maxShape : List Nat) (max : List Rat)
  | discrete (numValues : Nat) (dtype : DType) (name : String)
  | multiDiscrete (nvShape : List Nat) (numValues : List Nat) (dtype : DType) (name : String)
  deriving DecidableEq, Repr

namespace Leaf

def shape : Leaf → List Nat
  | array s _ _ => s | bounded s .. => s | discrete .. => [] | multiDiscrete s .. => s
def dtype : Leaf → DType
  | array _ d _ => d | bounded _ d .. => d | discrete _ d _ => d | multiDiscrete _ _ d _ => d
def name : Leaf → String
  | array _ _ n => n | bounded _ _ n .. => n | discrete _ _ n => n | multiDiscrete _ _ _ n => n

/-- lower / upper bound broadcast to the spec's shape (`none` for an unbounded Array) -/
def lower : Leaf → Option (List Rat)
  | array .. => none
  | bounded s _ _ ms m _ _ => broadcastTo ms m s
  | discrete .. => some [0]
  | multiDiscrete _ nv _ _ => some (nv.map (fun _ => 0))
def upper : Leaf → Option (List Rat)
  | array .. => none
  | bounded s _ _ _ _ ms m => broadcastTo ms m s
  | discrete n _ _ => some [(((n : Int) - 1 : Int) : Rat)]
  | multiDiscrete _ nv _ _ => some (nv.map (fun (n : Nat) => ((((n : Int) - 1 : Int)) : Rat)))

/-- what the constructors enforce -/
def WF : Leaf → Bool
  | array .. => true
  | l@(bounded s _ _ ms m xs x) =>
    m.length == prod ms && x.length == prod xs && broadcastable ms s && broadcastable xs s &&
    (match l.lower, l.upper with
     | some lo, some hi => (List.zipWith (fun a b => decide (a ≤ b)) lo hi).all id
     | _, _ => false)
  | discrete n d _ => n > 0 && d.isInt
  | multiDiscrete s nv d _ => nv.length == prod s && nv.all (· > 0) && d.isInt

/-- `validate`: shape and dtype exactly, every element within the inclusive bounds -/
def valid (l : Leaf) (v : Arr) : Bool :=
  decide (v.shape = l.shape) && decide (v.dtype = l.dtype) && v.data.length == prod l.shape &&
  (match l.lower, l.upper with
   | some lo, some hi =>
     (List.zipWith (fun x (b : Rat × Rat) => decide (b.1 ≤ x) && decide (x ≤ b.2)) v.data (List.zip lo hi)).all id
   | none, none => true
   | _, _ => false)

/-- `generate_value`: zeros for Array, the (broadcast) minimum otherwise -/
def generate (l : Leaf) : Arr :=
  match l.lower with
  | none => { shape := l.shape, dtype := l.dtype, data := List.replicate (prod l.shape) 0 }
  | some lo => { shape := l.shape, dtype := l.dtype, data := lo }

/-- `__eq__` between two specs of the same class -/
def beq : Leaf → Leaf → Bool
  | array s d n, array s' d' n' => s == s' && d == d' && n == n'
  | l@(bounded s d n ..), l'@(bounded s' d' n' ..) =>
    s == s' && d == d' && n == n' && l.lower == l'.lower && l.upper == l'.upper
  | discrete k d n, discrete k' d' n' => k == k' && d == d' && n == n'
  | multiDiscrete s nv d n, multiDiscrete s' nv' d' n' => s == s' && nv == nv' && d == d' && n == n'
  | _, _ => false

/-- keyword arguments of `replace` -/
inductive Kw
  | shape (s : List Nat) | dtype (d : DType) | name (n : String)
  | minimum (sh : List Nat) (m : List Rat) | maximum (sh : List Nat) (m : List Rat)
  | numValues (n : Nat) | numValuesArr (sh : List Nat) (nv : List Nat)
  deriving DecidableEq, Repr

/-- does this keyword name a constructor parameter of the class? (otherwise `TypeError`) -/
def accepts : Leaf → Kw → Bool
  | array .., .shape _ | array .., .dtype _ | array .., .name _ => true
  | bounded .., .shape _ | bounded .., .dtype _ | bounded .., .name _
  | bounded .., .minimum .. | bounded .., .maximum .. => true
  | discrete .., .numValues _ | discrete .., .dtype _ | discrete .., .name _ => true
  | multiDiscrete .., .numValuesArr .. | multiDiscrete .., .dtype _ | multiDiscrete .., .name _ => true
  | _, _ => false

def apply1 : Leaf → Kw → Leaf
  | array _ d n, .shape s => array s d n
  | array s _ n, .dtype d => array s d n
  | array s d _, .name n => array s d n
  | bounded _ d n ms m xs x, .shape s => bounded s d n ms m xs x
  | bounded s _ n ms m xs x, .dtype d => bounded s d n ms m xs x
  | bounded s d _ ms m xs x, .name n => bounded s d n ms m xs x
  | bounded s d n _ _ xs x, .minimum ms m => bounded s d n ms m xs x
  | bounded s d n ms m _ _, .maximum xs x => bounded s d n ms m xs x
  | discrete _ d n, .numValues k => discrete k d n
  | discrete k _ n, .dtype d => discrete k d n
  | discrete k d _, .name n => discrete k d n
  | multiDiscrete _ _ d n, .numValuesArr s nv => multiDiscrete s nv d n
  | multiDiscrete s nv _ n, .dtype d => multiDiscrete s nv d n
  | multiDiscrete s nv d _, .name n => multiDiscrete s nv d n
  | l, _ => l

/-- `replace(**kwargs)`: constructor kwargs updated by the given ones, then the constructor is
re-run (so the result must be well-formed); `none` = the constructor raises -/
def replace (l : Leaf) (kws : List Kw) : Option Leaf :=
  if kws.all (accepts l) && (kws.foldl apply1 l).WF then some (kws.foldl apply1 l) else none

/-- `__reduce__` then reconstruction: `cls(*args)` with the stored attributes -/
def unreduce (l : Leaf) : Leaf := l

end Leaf

/-! ### nested specs -/

abbrev Nested := List (String × Leaf)
abbrev NValue := List (String × Arr)

def Nested.valid (s : Nested) (v : NValue) : Bool :=
  s.map (·.1) == v.map (·.1) && (List.zipWith (fun (a : String × Leaf) (b : String × Arr) => a.2.valid b.2) s v).all id

def Nested.generate (s : Nested) : NValue := s.map (fun (k, l) => (k, l.generate))

/-- nested `__eq__` (same child names): children pairwise equal -/
def Nested.beq (a b : Nested) : Bool :=
  a.map (·.1) == b.map (·.1) && (List.zipWith (fun (x : String × Leaf) (y : String × Leaf) => x.2.beq y.2) a b).all id

/-! ### gym spaces and dm_env specs converted from a leaf spec -/

inductive Gym
  | box (shape : List Nat) (dtype : DType) (low high : Option (List Rat))   -- none = ∓inf
  | discrete (n : Nat)
  | multiDiscrete (shape : List Nat) (nvec : List Nat)
  deriving DecidableEq, Repr

def toGym : Leaf → Gym
  | l@(.array s d _) => .box s d l.lower l.upper
  | l@(.bounded s d ..) => .box s d l.lower l.upper
  | .discrete n _ _ => .discrete n
  | .multiDiscrete s nv _ _ => .multiDiscrete s nv

/-- membership as gymnasium decides it for an array value of the spec's own dtype -/
def Gym.contains : Gym → Arr → Bool
  | .box s d lo hi, v =>
    decide (v.shape = s) && decide (v.dtype = d) &&
    (match lo with | none => true | some lo => (List.zipWith (fun x a => decide (a ≤ x)) v.data lo).all id) &&
    (match hi with | none => true | some hi => (List.zipWith (fun x b => decide (x ≤ b)) v.data hi).all id)
  | .discrete n, v => v.dtype.isInt && decide (v.shape = []) &&
    (match v.data with | [x] => decide (0 ≤ x) && decide (x < (n : Rat)) | _ => false)
  | .multiDiscrete s nv, v => v.dtype.isInt && decide (v.shape = s) && v.data.length == nv.length &&
    (List.zipWith (fun x (n : Nat) => decide (0 ≤ x) && decide (x < (n : Rat))) v.data nv).all id

end Sp
