/-
`jumanji/specs.py`: Array, BoundedArray, DiscreteArray, MultiDiscreteArray and nested Spec;
validate, generate_value, replace, __eq__, __reduce__, and the gym / dm_env conversions.
Import-free.

Arrays (values and bounds) are (shape, dtype, flat row-major data over ℚ).  A nested spec is its
flattened list of (path, leaf spec) pairs — which is how `validate` (tree_map over the dict of
children) and `__eq__` (is_equal_pytree over the dict of children) see it.
-/
namespace Sp

inductive DType | bool | int8 | int16 | int32 | uint8 | uint16 | uint32 | float16 | float32
  deriving DecidableEq, Repr, Inhabited

def DType.isInt : DType → Bool
  | .int8 | .int16 | .int32 | .uint8 | .uint16 | .uint32 => true
  | _ => false

/-- value range of the integer dtypes (bool as {0, 1}) -/
def DType.intRange : DType → Option (Int × Int)
  | .bool => some (0, 1)
  | .int8 => some (-128, 127) | .int16 => some (-32768, 32767) | .int32 => some (-2147483648, 2147483647)
  | .uint8 => some (0, 255) | .uint16 => some (0, 65535) | .uint32 => some (0, 4294967295)
  | .float16 | .float32 => none

/-- largest finite value of the float dtypes: 65504 and (2²⁴ − 1)·2¹⁰⁴ -/
def DType.maxFinite : DType → Rat
  | .float16 => 65504
  | .float32 => 340282346638528859811704183484516925440
  | _ => 0

/-- `±inf` of the float dtypes is represented by `±infEnc` = ±2²⁰⁰, a rational above every finite float16 / float32 value:
the map (finite float ↦ itself, ±inf ↦ ±infEnc) is an order embedding of the extended floats into ℚ, and `validate`,
`generate_value`, `==` and the conversions only compare and copy bounds and values (NaN is not modelled) -/
def infEnc : Rat := 1606938044258990275541962092341162602522202993782792835301376

/-- is the rational a value of the dtype?  Integer dtypes and bool: an integer inside the range.  Floats: a finite
magnitude or `±inf` (the mantissa is NOT modelled: stored bounds and values come from real arrays of that dtype) -/
def DType.fits (d : DType) (x : Rat) : Bool :=
  match d.intRange with
  | some (lo, hi) => x.den == 1 && decide (lo ≤ x.num) && decide (x.num ≤ hi)
  | none => (decide (-d.maxFinite ≤ x) && decide (x ≤ d.maxFinite)) || x == infEnc || x == -infEnc

/-- `jnp.asarray(x, dtype)` for a Python int / an int32 array element `x` and an integer dtype: two's-complement
wrap-around (no error, no saturation); bool: non-zero -/
def DType.wrap (d : DType) (x : Int) : Int :=
  match d with
  | .bool => if x = 0 then 0 else 1
  | _ => match d.intRange with
    | some (lo, hi) => (x - lo) % (hi - lo + 1) + lo
    | none => x

def prod (sh : List Nat) : Nat := sh.foldl (· * ·) 1

structure Arr where
  shape : List Nat
  dtype : DType
  data : List Rat
  deriving DecidableEq, Repr

/-- row-major multi-index of flat position `k` in `shape` (last axis fastest) -/
def unravel : List Nat → Nat → List Nat
  | [], _ => []
  | _ :: rest, k => (k / prod rest) :: unravel rest (k % prod rest)

def ravel : List Nat → List Nat → Nat
  | [], _ => 0
  | _ :: rest, [] => 0 * prod rest
  | _ :: rest, i :: is => i * prod rest + ravel rest is

/-- NumPy broadcasting of an array of shape `src` to `dst` (right-aligned; a source dimension must
be 1 or equal).  `none` = incompatible. -/
def broadcastable (src dst : List Nat) : Bool :=
  src.length ≤ dst.length &&
  (List.zip src.reverse dst.reverse).all (fun (s, d) => s == 1 || s == d)

/-- source multi-index for target multi-index `idx` -/
def srcIndex (src dst idx : List Nat) : List Nat :=
  let pad := dst.length - src.length
  List.zipWith (fun s i => if s == 1 then 0 else i) src (idx.drop pad)

def broadcastTo (src : List Nat) (data : List Rat) (dst : List Nat) : Option (List Rat) :=
  if broadcastable src dst then
    some ((List.range (prod dst)).map (fun k => data.getD (ravel src (srcIndex src dst (unravel dst k))) 0))
  else none

inductive Leaf
  | array (shape : List Nat) (dtype : DType) (name : String)
  | bounded (shape : List Nat) (dtype : DType) (name : String) (minShape : List Nat) (min : List Rat)
      (maxShape : List Nat) (max : List Rat)
  | discrete (numValues : Nat) (dtype : DType) (name : String)
  | multiDiscrete (nvShape : List Nat) (numValues : List Nat) (dtype : DType) (name : String)
  deriving DecidableEq, Repr

namespace Leaf

def shape : Leaf → List Nat
  | array s _ _ => s | bounded s .. => s | discrete .. => [] | multiDiscrete s .. => s
def dtype : Leaf → DType
  | array _ d _ => d | bounded _ d .. => d | discrete _ d _ => d | multiDiscrete _ _ d _ => d
def name : Leaf → String
  | array _ _ n => n | bounded _ _ n .. => n | discrete _ _ n => n | multiDiscrete _ _ _ n => n

/-- lower / upper bound broadcast to the spec's shape (`none` for an unbounded Array) -/
def lower : Leaf → Option (List Rat)
  | array .. => none
  | bounded s _ _ ms m _ _ => broadcastTo ms m s
  | discrete .. => some [0]
  | multiDiscrete _ nv _ _ => some (nv.map (fun _ => 0))
def upper : Leaf → Option (List Rat)
  | array .. => none
  | bounded s _ _ _ _ ms m => broadcastTo ms m s
  | discrete n _ _ => some [(((n : Int) - 1 : Int) : Rat)]
  | multiDiscrete _ nv _ _ => some (nv.map (fun (n : Nat) => ((((n : Int) - 1 : Int)) : Rat)))

/-- the structural checks of the constructors: bounds broadcastable and ordered, counts positive, integer dtype -/
def WF0 : Leaf → Bool
  | array .. => true
  | l@(bounded s _ _ ms m xs x) =>
    m.length == prod ms && x.length == prod xs && broadcastable ms s && broadcastable xs s &&
    (match l.lower, l.upper with
     | some lo, some hi => (List.zipWith (fun a b => decide (a ≤ b)) lo hi).all id
     | _, _ => false)
  | discrete n d _ => n > 0 && d.isInt
  | multiDiscrete s nv d _ => nv.length == prod s && nv.all (· > 0) && d.isInt

/-- the declared bounds are values of the declared dtype: `num_values − 1` (the largest valid value) and every
stored bound is representable, so the conversion `jnp.asarray(bound, dtype)` of the constructor changed nothing -/
def fitsDType : Leaf → Bool
  | array .. => true
  | bounded _ d _ _ m _ x => m.all d.fits && x.all d.fits
  | discrete n d _ => d.fits ((((n : Int) - 1 : Int)) : Rat)
  | multiDiscrete _ nv d _ => nv.all (fun (n : Nat) => d.fits ((((n : Int) - 1 : Int)) : Rat))

/-- well-formed spec = what a constructor call within its contract produces: the structural checks pass AND the
bounds are values of the dtype.  (The real `DiscreteArray` / `MultiDiscreteArray` constructors also ACCEPT some
counts beyond the dtype — see `ctorAccepts` — and then report a `num_values` that disagrees with the bound they
validate against; such specs are not well-formed here.) -/
def WF (l : Leaf) : Bool := l.WF0 && l.fitsDType

/-- the bound `DiscreteArray(n, dtype)` really stores: `jnp.asarray(n - 1, dtype)` wraps around -/
def storedMax (d : DType) (n : Nat) : Int := d.wrap ((n : Int) - 1)

/-- does the real constructor return (rather than raise)?  For the discrete kinds the only range-related check is
`minimum ≤ maximum` AFTER the wrap-around conversion: `DiscreteArray(200, int8)` raises (199 ↦ −57 < 0) but
`DiscreteArray(300, int8)` is accepted (299 ↦ 43).  (Python ints up to 2⁶³ − 1.) -/
def ctorAccepts : Leaf → Bool
  | discrete n d _ => n > 0 && d.isInt && decide (0 ≤ storedMax d n)
  | multiDiscrete s nv d _ =>
    nv.length == prod s && nv.all (· > 0) && d.isInt && nv.all (fun n => decide (0 ≤ storedMax d n))
  | l => l.WF

/-- `validate`: shape and dtype exactly, every element within the inclusive bounds -/
def valid (l : Leaf) (v : Arr) : Bool :=
  decide (v.shape = l.shape) && decide (v.dtype = l.dtype) && v.data.length == prod l.shape &&
  (match l.lower, l.upper with
   | some lo, some hi =>
     (List.zipWith (fun x (b : Rat × Rat) => decide (b.1 ≤ x) && decide (x ≤ b.2)) v.data (List.zip lo hi)).all id
   | none, none => true
   | _, _ => false)

/-- `generate_value`: zeros for Array, the (broadcast) minimum otherwise -/
def generate (l : Leaf) : Arr :=
  match l.lower with
  | none => { shape := l.shape, dtype := l.dtype, data := List.replicate (prod l.shape) 0 }
  | some lo => { shape := l.shape, dtype := l.dtype, data := lo }

/-- `__eq__` between two specs of the same class -/
def beq : Leaf → Leaf → Bool
  | array s d n, array s' d' n' => s == s' && d == d' && n == n'
  | l@(bounded s d n ..), l'@(bounded s' d' n' ..) =>
    s == s' && d == d' && n == n' && l.lower == l'.lower && l.upper == l'.upper
  | discrete k d n, discrete k' d' n' => k == k' && d == d' && n == n'
  | multiDiscrete s nv d n, multiDiscrete s' nv' d' n' => s == s' && nv == nv' && d == d' && n == n'
  | _, _ => false

/-- keyword arguments of `replace` -/
inductive Kw
  | shape (s : List Nat) | dtype (d : DType) | name (n : String)
  | minimum (sh : List Nat) (m : List Rat) | maximum (sh : List Nat) (m : List Rat)
  | numValues (n : Nat) | numValuesArr (sh : List Nat) (nv : List Nat)
  deriving DecidableEq, Repr

/-- does this keyword name a constructor parameter of the class? (otherwise `TypeError`) -/
def accepts : Leaf → Kw → Bool
  | array .., .shape _ | array .., .dtype _ | array .., .name _ => true
  | bounded .., .shape _ | bounded .., .dtype _ | bounded .., .name _
  | bounded .., .minimum .. | bounded .., .maximum .. => true
  | discrete .., .numValues _ | discrete .., .dtype _ | discrete .., .name _ => true
  | multiDiscrete .., .numValuesArr .. | multiDiscrete .., .dtype _ | multiDiscrete .., .name _ => true
  | _, _ => false

def apply1 : Leaf → Kw → Leaf
  | array _ d n, .shape s => array s d n
  | array s _ n, .dtype d => array s d n
  | array s d _, .name n => array s d n
  | bounded _ d n ms m xs x, .shape s => bounded s d n ms m xs x
  | bounded s _ n ms m xs x, .dtype d => bounded s d n ms m xs x
  | bounded s d _ ms m xs x, .name n => bounded s d n ms m xs x
  | bounded s d n _ _ xs x, .minimum ms m => bounded s d n ms m xs x
  | bounded s d n ms m _ _, .maximum xs x => bounded s d n ms m xs x
  | discrete _ d n, .numValues k => discrete k d n
  | discrete k _ n, .dtype d => discrete k d n
  | discrete k d _, .name n => discrete k d n
  | multiDiscrete _ _ d n, .numValuesArr s nv => multiDiscrete s nv d n
  | multiDiscrete s nv _ n, .dtype d => multiDiscrete s nv d n
  | multiDiscrete s nv d _, .name n => multiDiscrete s nv d n
  | l, _ => l

/-- `replace(**kwargs)`: constructor kwargs updated by the given ones, then the constructor is
re-run (so the result must be well-formed); `none` = the constructor raises -/
def replace (l : Leaf) (kws : List Kw) : Option Leaf :=
  if kws.all (accepts l) && (kws.foldl apply1 l).WF then some (kws.foldl apply1 l) else none

/-! #### `==` between specs of DIFFERENT classes.  Python tries the reflected `__eq__` of the other operand when the
first returns `NotImplemented` (and the subclass's first when one class derives from the other):
`Array ⊃ BoundedArray ⊃ {DiscreteArray, MultiDiscreteArray}`.  So `Array.__eq__` decides whenever one side is a plain
`Array`, `BoundedArray.__eq__` whenever one side is a plain `BoundedArray` (and the other below it), and a
`DiscreteArray` never equals a `MultiDiscreteArray` (both return `NotImplemented`, identity decides). -/

inductive Kind | array | bounded | discrete | multi
  deriving DecidableEq, Repr

def kind : Leaf → Kind
  | array .. => .array | bounded .. => .bounded | discrete .. => .discrete | multiDiscrete .. => .multi

/-- `Array.__eq__` on any two leaf specs: shape, dtype, name -/
def arrayEq (a b : Leaf) : Bool := a.shape == b.shape && a.dtype == b.dtype && a.name == b.name
/-- `BoundedArray.__eq__` on any two bounded specs: also the bounds -/
def boundedEq (a b : Leaf) : Bool :=
  a.shape == b.shape && a.dtype == b.dtype && a.name == b.name && a.lower == b.lower && a.upper == b.upper

/-- Python's `a == b` for any two leaf specs -/
def pyEq (a b : Leaf) : Bool :=
  match a.kind, b.kind with
  | .array, _ => arrayEq a b
  | _, .array => arrayEq a b
  | .bounded, _ => boundedEq a b
  | _, .bounded => boundedEq a b
  | .discrete, .discrete => a.beq b
  | .multi, .multi => a.beq b
  | _, _ => false

/-! #### attributes = constructor parameters (`_get_constructor_kwargs`) -/

inductive Attr | shape | dtype | name | minimum | maximum | numValues
  deriving DecidableEq, Repr

inductive AttrVal
  | shape (s : List Nat) | dtype (d : DType) | name (n : String)
  | arr (sh : List Nat) (data : List Rat) | nat (n : Nat) | natArr (sh : List Nat) (nv : List Nat)
  | absent
  deriving DecidableEq, Repr

def Kw.attr : Kw → Attr
  | .shape _ => .shape | .dtype _ => .dtype | .name _ => .name | .minimum .. => .minimum | .maximum .. => .maximum
  | .numValues _ => .numValues | .numValuesArr .. => .numValues

def Kw.val : Kw → AttrVal
  | .shape s => .shape s | .dtype d => .dtype d | .name n => .name n | .minimum sh m => .arr sh m
  | .maximum sh m => .arr sh m | .numValues n => .nat n | .numValuesArr sh nv => .natArr sh nv

/-- the value of a constructor parameter (`absent` when the class has no such parameter: `shape`, `minimum`, `maximum`
of the discrete kinds are derived from `num_values`) -/
def get : Leaf → Attr → AttrVal
  | array s _ _, .shape => .shape s | array _ d _, .dtype => .dtype d | array _ _ n, .name => .name n
  | bounded s .., .shape => .shape s | bounded _ d .., .dtype => .dtype d | bounded _ _ n .., .name => .name n
  | bounded _ _ _ ms m _ _, .minimum => .arr ms m | bounded _ _ _ _ _ xs x, .maximum => .arr xs x
  | discrete k _ _, .numValues => .nat k | discrete _ d _, .dtype => .dtype d | discrete _ _ n, .name => .name n
  | multiDiscrete s nv _ _, .numValues => .natArr s nv | multiDiscrete _ _ d _, .dtype => .dtype d
  | multiDiscrete _ _ _ n, .name => .name n
  | _, _ => .absent

/-! #### pickling: `__reduce__` returns the class and the POSITIONAL constructor arguments; unpickling calls
`cls(*args)`, i.e. runs the constructor again -/

/-- `__reduce__` -/
def reduce : Leaf → Kind × List AttrVal
  | array s d n => (.array, [.shape s, .dtype d, .name n])
  | bounded s d n ms m xs x => (.bounded, [.shape s, .dtype d, .arr ms m, .arr xs x, .name n])
  | discrete k d n => (.discrete, [.nat k, .dtype d, .name n])
  | multiDiscrete s nv d n => (.multi, [.natArr s nv, .dtype d, .name n])

/-- `cls(*args)` with the positional signatures `Array(shape, dtype, name)`,
`BoundedArray(shape, dtype, minimum, maximum, name)`, `DiscreteArray(num_values, dtype, name)`,
`MultiDiscreteArray(num_values, dtype, name)`; `none` = TypeError / the constructor raises -/
def construct : Kind → List AttrVal → Option Leaf
  | .array, [.shape s, .dtype d, .name n] => if (array s d n).WF then some (array s d n) else none
  | .bounded, [.shape s, .dtype d, .arr ms m, .arr xs x, .name n] =>
    if (bounded s d n ms m xs x).WF then some (bounded s d n ms m xs x) else none
  | .discrete, [.nat k, .dtype d, .name n] => if (discrete k d n).WF then some (discrete k d n) else none
  | .multi, [.natArr s nv, .dtype d, .name n] =>
    if (multiDiscrete s nv d n).WF then some (multiDiscrete s nv d n) else none
  | _, _ => none

/-- `pickle.loads(pickle.dumps(spec))` -/
def unreduce (l : Leaf) : Option Leaf := construct l.reduce.1 l.reduce.2

end Leaf

/-! ### nested specs -/

abbrev Nested := List (String × Leaf)
abbrev NValue := List (String × Arr)

def Nested.valid (s : Nested) (v : NValue) : Bool :=
  s.map (·.1) == v.map (·.1) && (List.zipWith (fun (a : String × Leaf) (b : String × Arr) => a.2.valid b.2) s v).all id

def Nested.generate (s : Nested) : NValue := s.map (fun (k, l) => (k, l.generate))

/-- nested `__eq__` (same child names): children pairwise equal -/
def Nested.beq (a b : Nested) : Bool :=
  a.map (·.1) == b.map (·.1) && (List.zipWith (fun (x : String × Leaf) (y : String × Leaf) => x.2.beq y.2) a b).all id

/-! ### `Spec.replace(**kwargs)` of a nested spec: `dict_copy = deepcopy(self._specs); dict_copy.update(kwargs);
Spec(self._constructor, self.name, **dict_copy)`.  One level of structure is explicit: the dict of children (insertion
order), each child being a leaf (`[("", leaf)]`) or the flattened content of a nested spec. -/

structure Node where
  name : String
  children : List (String × Nested)
  deriving DecidableEq, Repr

/-- `dict.__setitem__`: an existing key keeps its position -/
def dictSet {β : Type} : List (String × β) → String × β → List (String × β)
  | [], kv => [kv]
  | (k, v) :: rest, kv => if k = kv.1 then (k, kv.2) :: rest else (k, v) :: dictSet rest kv

def Node.replace (n : Node) (kws : List (String × Nested)) : Node :=
  { name := n.name, children := kws.foldl dictSet n.children }

def Node.child (n : Node) (k : String) : Option Nested := n.children.lookup k

def joinPath (k p : String) : String := if p = "" then k else k ++ "." ++ p

/-- the flattened view used by `validate` / `generate_value` / `==` -/
def Node.flatten (n : Node) : Nested :=
  n.children.flatMap (fun kc => kc.2.map (fun pl => (joinPath kc.1 pl.1, pl.2)))

/-! ### gym spaces and dm_env specs converted from a leaf spec -/

inductive Gym
  | box (shape : List Nat) (dtype : DType) (low high : Option (List Rat))   -- none = ∓inf
  | discrete (n : Nat)
  | multiDiscrete (shape : List Nat) (nvec : List Nat)
  deriving DecidableEq, Repr

def toGym : Leaf → Gym
  | l@(.array s d _) => .box s d l.lower l.upper
  | l@(.bounded s d ..) => .box s d l.lower l.upper
  | .discrete n _ _ => .discrete n
  | .multiDiscrete s nv _ _ => .multiDiscrete s nv

/-- membership as gymnasium decides it for an array value of the spec's own dtype -/
def Gym.contains : Gym → Arr → Bool
  | .box s d lo hi, v =>
    decide (v.shape = s) && decide (v.dtype = d) &&
    (match lo with | none => true | some lo => (List.zipWith (fun x a => decide (a ≤ x)) v.data lo).all id) &&
    (match hi with | none => true | some hi => (List.zipWith (fun x b => decide (x ≤ b)) v.data hi).all id)
  | .discrete n, v => v.dtype.isInt && decide (v.shape = []) &&
    (match v.data with | [x] => decide (0 ≤ x) && decide (x < (n : Rat)) | _ => false)
  | .multiDiscrete s nv, v => v.dtype.isInt && decide (v.shape = s) && v.data.length == nv.length &&
    (List.zipWith (fun x (n : Nat) => decide (0 ≤ x) && decide (x < (n : Rat))) v.data nv).all id

end Sp
