import JumanjiModel.Spec.Spec
namespace Sp

theorem broadcastTo_length {src data dst r} (h : broadcastTo src data dst = some r) : r.length = prod dst := by
  unfold broadcastTo at h
  split at h
  · injection h with h; subst h; simp
  · simp at h

theorem zipWith_all_getElem {α β} (f : α → β → Bool) (as : List α) (bs : List β) :
    (List.zipWith f as bs).all id = true ↔ ∀ k (h1 : k < as.length) (h2 : k < bs.length), f as[k] bs[k] = true := by
  induction as generalizing bs with
  | nil => simp
  | cons a as ih =>
    cases bs with
    | nil => simp
    | cons b bs =>
      simp only [List.zipWith_cons_cons, List.all_cons, id, Bool.and_eq_true, ih, List.length_cons]
      constructor
      · rintro ⟨h0, hr⟩ k h1 h2
        cases k with
        | zero => simpa using h0
        | succ k => simpa using hr k (by omega) (by omega)
      · intro h
        exact ⟨by simpa using h 0 (by omega) (by omega), fun k h1 h2 => h (k+1) (Nat.succ_lt_succ h1) (Nat.succ_lt_succ h2)⟩

namespace Leaf

/-- the characterisation of `validate` -/
theorem valid_iff (l : Leaf) (v : Arr) : l.valid v = true ↔
    v.shape = l.shape ∧ v.dtype = l.dtype ∧ v.data.length = prod l.shape ∧
    ((l.lower = none ∧ l.upper = none) ∨
     ∃ lo hi, l.lower = some lo ∧ l.upper = some hi ∧
       ∀ k (h1 : k < v.data.length) (h2 : k < (List.zip lo hi).length),
         (List.zip lo hi)[k].1 ≤ v.data[k] ∧ v.data[k] ≤ (List.zip lo hi)[k].2) := by
  unfold valid
  cases hl : l.lower <;> cases hu : l.upper
  · simp [and_assoc]
  · simp
  · simp
  · simp only [Bool.and_eq_true, decide_eq_true_eq, beq_iff_eq, zipWith_all_getElem, and_assoc]
    simp

theorem lower_length_of_WF0 (l : Leaf) (h : l.WF0 = true) (lo : List Rat) (hlo : l.lower = some lo) :
    lo.length = prod l.shape := by
  cases l with
  | array => simp [lower] at hlo
  | bounded s d n ms m xs x => simp [lower] at hlo; simpa [shape] using broadcastTo_length hlo
  | discrete k d n => simp [lower] at hlo; subst hlo; simp [shape, prod]
  | multiDiscrete s nv d n =>
    simp [lower] at hlo; subst hlo
    simp [WF0] at h
    simp [shape, h.1.1]

theorem generate_valid0 (l : Leaf) (h : l.WF0 = true) : l.valid l.generate = true := by
  rw [valid_iff]
  cases hl : l.lower with
  | none =>
    have hu : l.upper = none := by
      cases l <;> simp_all [lower, upper, WF0]
    simp [generate, hl, hu]
  | some lo =>
    have hlen := lower_length_of_WF0 l h lo hl
    simp only [generate, hl, true_and, hlen]
    right
    cases l with
    | array => simp [lower] at hl
    | bounded s d n ms m xs x =>
      simp only [WF0, Bool.and_eq_true] at h
      obtain ⟨_, hle⟩ := h
      rw [hl] at hle
      cases hu : (bounded s d n ms m xs x).upper with
      | none => simp [hu] at hle
      | some hi =>
        simp only [hu, zipWith_all_getElem, decide_eq_true_eq] at hle
        refine ⟨lo, hi, rfl, rfl, ?_⟩
        intro k h1 h2
        simp only [List.getElem_zip]
        simp at h2
        exact ⟨by grind, hle k (by omega) (by omega)⟩
    | discrete k d n =>
      simp [lower] at hl; subst hl
      simp [WF0] at h
      refine ⟨[0], [(((k:Int) - 1 : Int) : Rat)], rfl, by simp [upper], ?_⟩
      intro j h1 h2
      have hj : j = 0 := by simp at h2; omega
      subst hj
      simp only [List.getElem_zip, List.getElem_cons_zero]
      have : (0:Int) ≤ (k:Int) - 1 := by omega
      refine ⟨by grind, ?_⟩
      exact_mod_cast this
    | multiDiscrete s nv d n =>
      simp [lower] at hl; subst hl
      simp [WF0] at h
      refine ⟨nv.map (fun _ => (0 : Rat)), nv.map (fun (n : Nat) => ((((n : Int) - 1 : Int)) : Rat)), rfl, by simp [upper], ?_⟩
      intro j h1 h2
      simp at h1 h2
      simp only [List.getElem_zip, List.getElem_map]
      have hp := h.1.2 nv[j] (List.getElem_mem _)
      have : (0:Int) ≤ (nv[j]:Int) - 1 := by omega
      refine ⟨by grind, ?_⟩
      exact_mod_cast this

theorem WF0_of_WF {l : Leaf} (h : l.WF = true) : l.WF0 = true := by
  simp only [WF, Bool.and_eq_true] at h; exact h.1
theorem fitsDType_of_WF {l : Leaf} (h : l.WF = true) : l.fitsDType = true := by
  simp only [WF, Bool.and_eq_true] at h; exact h.2

theorem lower_length_of_WF (l : Leaf) (h : l.WF = true) (lo : List Rat) (hlo : l.lower = some lo) :
    lo.length = prod l.shape := lower_length_of_WF0 l (WF0_of_WF h) lo hlo

theorem upper_length_of_WF0 (l : Leaf) (h : l.WF0 = true) (hi : List Rat) (hhi : l.upper = some hi) :
    hi.length = prod l.shape := by
  cases l with
  | array => simp [upper] at hhi
  | bounded s d n ms m xs x => simp [upper] at hhi; simpa [shape] using broadcastTo_length hhi
  | discrete k d n => simp [upper] at hhi; subst hhi; simp [shape, prod]
  | multiDiscrete s nv d n =>
    simp [upper] at hhi; subst hhi
    simp [WF0] at h
    simp [shape, h.1.1]

theorem generate_valid (l : Leaf) (h : l.WF = true) : l.valid l.generate = true := generate_valid0 l (WF0_of_WF h)

/-- `validate` of a well-formed spec: shape, dtype, and EVERY element of the value is compared with its own pair of
bounds (no element escapes the check: both broadcast bounds have exactly as many elements as the value) -/
theorem valid_iff_WF (l : Leaf) (hw : l.WF = true) (v : Arr) : l.valid v = true ↔
    v.shape = l.shape ∧ v.dtype = l.dtype ∧ v.data.length = prod l.shape ∧
    ((l.lower = none ∧ l.upper = none) ∨
     ∃ lo hi, l.lower = some lo ∧ l.upper = some hi ∧ lo.length = prod l.shape ∧ hi.length = prod l.shape ∧
       ∀ k (hv : k < v.data.length) (h1 : k < lo.length) (h2 : k < hi.length), lo[k] ≤ v.data[k] ∧ v.data[k] ≤ hi[k]) := by
  rw [valid_iff]
  constructor
  · rintro ⟨hs, hd, hl, hb⟩
    refine ⟨hs, hd, hl, ?_⟩
    rcases hb with hb | ⟨lo, hi, e1, e2, hk⟩
    · exact Or.inl hb
    · refine Or.inr ⟨lo, hi, e1, e2, lower_length_of_WF0 l (WF0_of_WF hw) lo e1, upper_length_of_WF0 l (WF0_of_WF hw) hi e2, ?_⟩
      intro k hv h1 h2
      have := hk k hv (by simp; omega)
      simpa [List.getElem_zip] using this
  · rintro ⟨hs, hd, hl, hb⟩
    refine ⟨hs, hd, hl, ?_⟩
    rcases hb with hb | ⟨lo, hi, e1, e2, l1, l2, hk⟩
    · exact Or.inl hb
    · refine Or.inr ⟨lo, hi, e1, e2, ?_⟩
      intro k hv hz
      simp at hz
      simpa [List.getElem_zip] using hk k hv (by omega) (by omega)

theorem beq_refl (l : Leaf) : l.beq l = true := by cases l <;> simp [beq]

theorem beq_symm (a b : Leaf) : a.beq b = b.beq a := by
  rw [Bool.eq_iff_iff]
  cases a <;> cases b <;> simp only [beq, Bool.and_eq_true, beq_iff_eq] <;> grind

theorem beq_trans (a b c : Leaf) (h1 : a.beq b = true) (h2 : b.beq c = true) : a.beq c = true := by
  cases a <;> cases b <;> cases c <;> simp only [beq, Bool.and_eq_true, beq_iff_eq] at * <;> grind

/-- equal specs agree on every attribute: any difference in shape, dtype, name, bounds or
num_values makes `==` false -/
theorem beq_attrs (a b : Leaf) (h : a.beq b = true) :
    a.shape = b.shape ∧ a.dtype = b.dtype ∧ a.name = b.name ∧ a.lower = b.lower ∧ a.upper = b.upper := by
  cases a <;> cases b <;> simp only [beq, Bool.and_eq_true, beq_iff_eq, lower, upper] at h <;>
    simp only [shape, dtype, name, lower, upper] <;> grind

theorem beq_numValues {k d n k' d' n'} (h : (discrete k d n).beq (discrete k' d' n') = true) : k = k' := by
  simp [beq] at h; exact h.1.1

theorem beq_numValuesArr {s nv d n s' nv' d' n'}
    (h : (multiDiscrete s nv d n).beq (multiDiscrete s' nv' d' n') = true) : nv = nv' := by
  simp [beq] at h; exact h.1.1.2

theorem replace_nil (l : Leaf) (h : l.WF = true) : l.replace [] = some l := by
  simp [replace, h]

/-- replacing only the name changes only the name -/
theorem replace_name (l l' : Leaf) (n : String) (h : l.replace [.name n] = some l') :
    l'.name = n ∧ l'.shape = l.shape ∧ l'.dtype = l.dtype ∧ l'.lower = l.lower ∧ l'.upper = l.upper := by
  unfold replace at h
  split at h
  · injection h with h; subst h
    cases l <;> simp [apply1, name, shape, dtype, lower, upper]
  · simp at h

theorem replace_dtype (l l' : Leaf) (d : DType) (h : l.replace [.dtype d] = some l') :
    l'.dtype = d ∧ l'.shape = l.shape ∧ l'.name = l.name := by
  unfold replace at h
  split at h
  · injection h with h; subst h
    cases l <;> simp [apply1, name, shape, dtype]
  · simp at h

theorem replace_shape (l l' : Leaf) (s : List Nat) (h : l.replace [.shape s] = some l') :
    l'.shape = s ∧ l'.dtype = l.dtype ∧ l'.name = l.name := by
  unfold replace at h
  split at h
  · rename_i hacc
    injection h with h; subst h
    cases l <;> simp_all [apply1, name, shape, dtype, accepts]
  · simp at h

theorem replace_WF (l l' : Leaf) (kws : List Kw) (h : l.replace kws = some l') : l'.WF = true := by
  unfold replace at h
  split at h
  · rename_i hw; injection h with h; subst h
    simp only [Bool.and_eq_true] at hw; exact hw.2
  · simp at h

end Leaf

theorem Nested.generate_valid (s : Nested) (h : ∀ p ∈ s, p.2.WF = true) : s.valid s.generate = true := by
  simp only [Nested.valid, Nested.generate, Bool.and_eq_true, beq_iff_eq, zipWith_all_getElem]
  refine ⟨by simp, ?_⟩
  intro k h1 h2
  simp only [List.getElem_map]
  exact Leaf.generate_valid _ (h _ (List.getElem_mem _))

/-- nested specs are equal exactly when they have the same child names and the children are
pairwise equal -/
theorem Nested.beq_iff (a b : Nested) : a.beq b = true ↔
    a.map (·.1) = b.map (·.1) ∧ ∀ k (h1 : k < a.length) (h2 : k < b.length), a[k].2.beq b[k].2 = true := by
  simp only [Nested.beq, Bool.and_eq_true, beq_iff_eq, zipWith_all_getElem]

theorem Nested.beq_refl (a : Nested) : a.beq a = true := by
  rw [Nested.beq_iff]; exact ⟨rfl, fun k h1 _ => Leaf.beq_refl _⟩

theorem Nested.beq_symm (a b : Nested) : a.beq b = b.beq a := by
  rw [Bool.eq_iff_iff, Nested.beq_iff, Nested.beq_iff]
  constructor <;> (rintro ⟨h1, h2⟩; exact ⟨h1.symm, fun k ha hb => by rw [Leaf.beq_symm]; exact h2 k hb ha⟩)

/-- every value valid for a (well-formed) spec belongs to the gym space converted from it -/
theorem toGym_member0 (l : Leaf) (hw : l.WF0 = true) (v : Arr) (h : l.valid v = true) :
    (toGym l).contains v = true := by
  rw [Leaf.valid_iff] at h
  obtain ⟨hs, hd, hlen, hb⟩ := h
  cases l with
  | array s d n =>
    simp [toGym, Gym.contains, Leaf.lower, Leaf.upper, Leaf.shape, Leaf.dtype] at *
    exact ⟨hs, hd⟩
  | bounded s d n ms m xs x =>
    rcases hb with ⟨h1, _⟩ | ⟨lo, hi, h1, h2, hk⟩
    · simp only [Leaf.WF0, Bool.and_eq_true] at hw
      rw [h1] at hw; simp at hw
    · simp only [toGym, Gym.contains, h1, h2, Bool.and_eq_true, decide_eq_true_eq, zipWith_all_getElem]
      have l1 := broadcastTo_length (by simpa [Leaf.lower] using h1)
      have l2 := broadcastTo_length (by simpa [Leaf.upper] using h2)
      simp [Leaf.shape] at hlen
      refine ⟨⟨⟨hs, hd⟩, ?_⟩, ?_⟩
      · intro k a b
        have := hk k a (by simp; omega)
        simp only [List.getElem_zip] at this
        exact this.1
      · intro k a b
        have := hk k a (by simp; omega)
        simp only [List.getElem_zip] at this
        exact this.2
  | discrete k d n =>
    rcases hb with ⟨h1, _⟩ | ⟨lo, hi, h1, h2, hk⟩
    · simp [Leaf.lower] at h1
    · simp [Leaf.lower] at h1; simp [Leaf.upper] at h2; subst h1; subst h2
      simp [Leaf.WF0] at hw
      simp [Leaf.shape, prod] at hlen hs
      simp [Leaf.dtype] at hd
      match hv : v.data, hlen with
      | [x], _ =>
        simp [toGym, Gym.contains, hv, hs, hd, hw.2]
        have := hk 0 (by simp [hv]) (by simp)
        simp [hv] at this
        refine ⟨this.1, ?_⟩
        have e : (((k:Int) - 1 : Int) : Rat) = (k : Rat) - 1 := by
          simp [Rat.intCast_sub, Rat.intCast_natCast]
        grind
  | multiDiscrete s nv d n =>
    rcases hb with ⟨h1, _⟩ | ⟨lo, hi, h1, h2, hk⟩
    · simp [Leaf.lower] at h1
    · simp [Leaf.lower] at h1; simp [Leaf.upper] at h2; subst h1; subst h2
      simp [Leaf.WF0] at hw
      simp [Leaf.shape] at hlen hs
      simp [Leaf.dtype] at hd
      simp only [toGym, Gym.contains, Bool.and_eq_true, decide_eq_true_eq, zipWith_all_getElem, hd, hw.2, hs,
        beq_iff_eq, true_and]
      refine ⟨by omega, ?_⟩
      intro j a b
      have := hk j a (by simp; omega)
      simp only [List.getElem_zip, List.getElem_map] at this
      refine ⟨this.1, ?_⟩
      have e : (((nv[j]:Int) - 1 : Int) : Rat) = (nv[j] : Rat) - 1 := by
        simp [Rat.intCast_sub, Rat.intCast_natCast]
      grind

theorem toGym_member (l : Leaf) (hw : l.WF = true) (v : Arr) (h : l.valid v = true) :
    (toGym l).contains v = true := toGym_member0 l (Leaf.WF0_of_WF hw) v h

end Sp

namespace Sp

theorem DType.wrap_of_fits (d : DType) (x : Int) (hd : d.isInt = true) (hf : d.fits (x : Rat) = true) :
    d.wrap x = x := by
  cases d <;> simp [DType.fits, DType.intRange, DType.wrap, DType.isInt] at * <;>
    (obtain ⟨h1, h2⟩ := hf; have := of_decide_eq_true h1; have := of_decide_eq_true h2; omega)

theorem DType.fits_zero (d : DType) : d.fits 0 = true := by cases d <;> decide

namespace Leaf

theorem ctorAccepts_of_WF (l : Leaf) (h : l.WF = true) : l.ctorAccepts = true := by
  cases l with
  | array => exact h
  | bounded => exact h
  | discrete n d nm =>
    have h0 := WF0_of_WF h
    have hf := fitsDType_of_WF h
    simp only [WF0, Bool.and_eq_true, decide_eq_true_eq] at h0
    simp only [ctorAccepts, storedMax, Bool.and_eq_true, decide_eq_true_eq]
    refine ⟨⟨by simpa using h0.1, h0.2⟩, ?_⟩
    have := DType.wrap_of_fits d _ h0.2 hf
    have hpos : n > 0 := by simpa using h0.1
    exact decide_eq_true (by omega)
  | multiDiscrete s nv d nm =>
    have h0 := WF0_of_WF h
    have hf := fitsDType_of_WF h
    simp only [WF0, Bool.and_eq_true] at h0
    simp only [ctorAccepts, Bool.and_eq_true]
    refine ⟨⟨⟨h0.1.1, h0.1.2⟩, h0.2⟩, ?_⟩
    simp only [fitsDType, List.all_eq_true] at hf ⊢
    intro n hn
    have hpos : n > 0 := by simpa using (List.all_eq_true.1 h0.1.2) n hn
    simp only [storedMax, decide_eq_true_eq]
    have := DType.wrap_of_fits d _ h0.2 (hf n hn)
    exact decide_eq_true (by omega)

/-- for a well-formed discrete spec the stored bound is `num_values − 1`: the reported count and the validated
bound agree -/
theorem storedMax_of_WF (n : Nat) (d : DType) (nm : String) (h : (discrete n d nm).WF = true) :
    storedMax d n = (n : Int) - 1 := by
  have h0 := WF0_of_WF h
  simp only [WF0, Bool.and_eq_true] at h0
  exact DType.wrap_of_fits d _ h0.2 (fitsDType_of_WF h)

/-- the real constructor accepts counts the dtype cannot hold, and then `num_values` (300) disagrees with the
bound it validates against (43); `DiscreteArray(200, int8)` on the other hand raises -/
theorem ctor_wrap_witness :
    (discrete 300 .int8 "").ctorAccepts = true ∧ (discrete 300 .int8 "").WF = false ∧
    storedMax .int8 300 = 43 ∧ (discrete 200 .int8 "").ctorAccepts = false ∧
    (multiDiscrete [2] [300, 5] .int8 "").ctorAccepts = true ∧ (multiDiscrete [2] [300, 5] .int8 "").WF = false := by
  decide +kernel

/-- the generated value consists of values of the dtype -/
theorem generate_fits (l : Leaf) (h : l.WF = true) : l.generate.data.all l.dtype.fits = true := by
  have hf := fitsDType_of_WF h
  cases l with
  | array s d n =>
    simp only [generate, lower, List.all_eq_true, List.mem_replicate]
    rintro x ⟨_, rfl⟩
    exact DType.fits_zero _
  | bounded s d n ms m xs x =>
    have h0 := WF0_of_WF h
    simp only [WF0, Bool.and_eq_true] at h0
    cases hl : (bounded s d n ms m xs x).lower with
    | none => rw [hl] at h0; simp at h0
    | some lo =>
      simp only [generate, hl, dtype]
      simp only [lower, broadcastTo] at hl
      split at hl
      · injection hl with hl; subst hl
        simp only [fitsDType, Bool.and_eq_true, List.all_eq_true] at hf
        simp only [List.all_eq_true, List.mem_map, List.mem_range]
        rintro y ⟨k, _, rfl⟩
        rw [List.getD_eq_getElem?_getD]
        cases hg : m[ravel ms (srcIndex ms s (unravel s k))]? with
        | none => simp; exact DType.fits_zero _
        | some z => simp; exact hf.1 z (List.mem_of_getElem? hg)
      · simp at hl
  | discrete k d n =>
    simp only [generate, lower, dtype, List.all_cons, List.all_nil, Bool.and_true]
    exact DType.fits_zero _
  | multiDiscrete s nv d n =>
    simp only [generate, lower, dtype, List.all_eq_true, List.mem_map]
    rintro y ⟨_, _, rfl⟩
    exact DType.fits_zero _

end Leaf
end Sp

namespace Sp
namespace Leaf

/-! ### cross-kind `==` -/

theorem pyEq_same_kind (a b : Leaf) (h : a.kind = b.kind) : a.pyEq b = a.beq b := by
  cases a <;> cases b <;> simp [kind] at h <;>
    simp [pyEq, kind, beq, arrayEq, boundedEq, shape, dtype, name, lower, upper, Bool.and_assoc]

theorem pyEq_refl (a : Leaf) : a.pyEq a = true := by
  rw [pyEq_same_kind a a rfl]; exact beq_refl a

theorem arrayEq_symm (a b : Leaf) : arrayEq a b = arrayEq b a := by
  rw [Bool.eq_iff_iff]; simp only [arrayEq, Bool.and_eq_true, beq_iff_eq]; grind
theorem boundedEq_symm (a b : Leaf) : boundedEq a b = boundedEq b a := by
  rw [Bool.eq_iff_iff]; simp only [boundedEq, Bool.and_eq_true, beq_iff_eq]; grind

theorem pyEq_symm (a b : Leaf) : a.pyEq b = b.pyEq a := by
  cases a <;> cases b <;> simp only [pyEq, kind] <;>
    first | exact arrayEq_symm _ _ | exact boundedEq_symm _ _ | exact beq_symm _ _ | rfl

/-- against a plain `Array` only shape, dtype and name are compared: bounds and `num_values` are ignored -/
theorem pyEq_array (s : List Nat) (d : DType) (n : String) (b : Leaf) :
    (array s d n).pyEq b = (s == b.shape && d == b.dtype && n == b.name) ∧
    b.pyEq (array s d n) = (s == b.shape && d == b.dtype && n == b.name) := by
  rw [pyEq_symm b]
  cases b <;> exact ⟨rfl, rfl⟩

/-- across kinds `==` is NOT transitive: `DiscreteArray(3) == Array((), int32) == DiscreteArray(4)` but
`DiscreteArray(3) != DiscreteArray(4)`; and a `DiscreteArray` equals the `BoundedArray` with its bounds.  The
equivalence-relation theorems are therefore stated per kind (`beq`), as the property says. -/
theorem pyEq_cross_kind_witness :
    (discrete 3 .int32 "").pyEq (array [] .int32 "") = true ∧ (array [] .int32 "").pyEq (discrete 4 .int32 "") = true ∧
    (discrete 3 .int32 "").pyEq (discrete 4 .int32 "") = false ∧
    (discrete 3 .int32 "").pyEq (bounded [] .int32 "" [] [0] [] [2]) = true ∧
    (multiDiscrete [1] [3] .int32 "").pyEq (bounded [1] .int32 "" [] [0] [] [2]) = true ∧
    (discrete 3 .int32 "").pyEq (multiDiscrete [] [3] .int32 "") = false := by decide +kernel

/-! ### replace -/

theorem apply1_kind (l : Leaf) (kw : Kw) : (apply1 l kw).kind = l.kind := by
  cases l <;> cases kw <;> rfl

theorem accepts_of_kind (a b : Leaf) (h : a.kind = b.kind) (kw : Kw) : accepts a kw = accepts b kw := by
  cases a <;> cases b <;> simp [kind] at h <;> cases kw <;> rfl

theorem apply1_get_other (l : Leaf) (kw : Kw) (attr : Attr) (hne : attr ≠ kw.attr) :
    (apply1 l kw).get attr = l.get attr := by
  cases l <;> cases kw <;> cases attr <;> simp_all [apply1, get, Kw.attr]

theorem apply1_get_same (l : Leaf) (kw : Kw) (h : accepts l kw = true) : (apply1 l kw).get kw.attr = kw.val := by
  cases l <;> cases kw <;> simp_all [apply1, get, Kw.attr, Kw.val, accepts]

theorem foldl_kind (l : Leaf) (kws : List Kw) : (kws.foldl apply1 l).kind = l.kind := by
  induction kws generalizing l with
  | nil => rfl
  | cons kw kws ih => simp only [List.foldl_cons]; rw [ih, apply1_kind]

theorem foldl_get_other (l : Leaf) (kws : List Kw) (attr : Attr) (hn : attr ∉ kws.map Kw.attr) :
    (kws.foldl apply1 l).get attr = l.get attr := by
  induction kws generalizing l with
  | nil => rfl
  | cons kw kws ih =>
    simp only [List.map_cons, List.mem_cons, not_or] at hn
    simp only [List.foldl_cons]
    rw [ih _ hn.2, apply1_get_other l kw attr hn.1]

theorem foldl_get_named (l : Leaf) (kws : List Kw) (hacc : kws.all (accepts l) = true)
    (hnd : (kws.map Kw.attr).Nodup) : ∀ kw ∈ kws, (kws.foldl apply1 l).get kw.attr = kw.val := by
  induction kws generalizing l with
  | nil => simp
  | cons k kws ih =>
    simp only [List.all_cons, Bool.and_eq_true] at hacc
    simp only [List.map_cons, List.nodup_cons] at hnd
    intro kw hkw
    simp only [List.foldl_cons]
    rcases List.mem_cons.1 hkw with rfl | hkw
    · rw [foldl_get_other _ kws _ hnd.1, apply1_get_same l kw hacc.1]
    · refine ih (apply1 l k) ?_ hnd.2 kw hkw
      rw [List.all_eq_true] at hacc ⊢
      intro x hx
      rw [accepts_of_kind _ l (apply1_kind l k)]
      exact hacc.2 x hx

/-- `replace(**kwargs)` changes ONLY the named constructor parameters: every other parameter of the class keeps
its value (any keyword list, every attribute) … -/
theorem replace_only_named (l l' : Leaf) (kws : List Kw) (h : l.replace kws = some l') :
    ∀ attr, attr ∉ kws.map Kw.attr → l'.get attr = l.get attr := by
  unfold replace at h
  split at h
  · injection h with h; subst h
    intro attr hn
    exact foldl_get_other l kws attr hn
  · simp at h

/-- … every named parameter gets exactly the given value (Python keyword arguments are distinct), the class is
unchanged and the result passed the constructor's checks -/
theorem replace_sets_named (l l' : Leaf) (kws : List Kw) (hnd : (kws.map Kw.attr).Nodup)
    (h : l.replace kws = some l') :
    (∀ kw ∈ kws, l'.get kw.attr = kw.val) ∧ l'.kind = l.kind ∧ l'.WF = true := by
  unfold replace at h
  split at h
  · rename_i hc
    injection h with h; subst h
    simp only [Bool.and_eq_true] at hc
    exact ⟨foldl_get_named l kws hc.1 hnd, foldl_kind l kws, hc.2⟩
  · simp at h

/-- a keyword that is not a constructor parameter of the class is refused (`TypeError`) -/
theorem replace_unknown_kw (l : Leaf) (kws : List Kw) (kw : Kw) (hk : kw ∈ kws) (hna : accepts l kw = false) :
    l.replace kws = none := by
  unfold replace
  rw [if_neg]
  intro hc
  simp only [Bool.and_eq_true, List.all_eq_true] at hc
  have := hc.1 kw hk
  rw [hna] at this; exact absurd this (by simp)

/-- the attributes determine the spec: two specs of the same class with the same constructor parameters are the same -/
theorem eq_of_get (a b : Leaf) (hk : a.kind = b.kind) (h : ∀ attr, a.get attr = b.get attr) : a = b := by
  cases a <;> cases b <;> simp [kind] at hk
  all_goals
    have h1 := h .shape; have h2 := h .dtype; have h3 := h .name
    have h4 := h .minimum; have h5 := h .maximum; have h6 := h .numValues
    simp_all [get]

/-! ### pickling -/

/-- pickling round-trips: `cls(*args)` applied to what `__reduce__` returns rebuilds the very same spec (for every
well-formed spec; the constructor is re-run and accepts) -/
theorem unreduce_eq (l : Leaf) (h : l.WF = true) : l.unreduce = some l := by
  cases l <;> simp [unreduce, reduce, construct, h]

theorem pickle_roundtrip (l : Leaf) (h : l.WF = true) : ∃ l', l.unreduce = some l' ∧ l'.beq l = true ∧ l'.WF = true :=
  ⟨l, unreduce_eq l h, beq_refl l, h⟩

/-- the arguments are positional: what `construct` rebuilds from a well-formed argument list reduces to that list -/
theorem reduce_construct (k : Kind) (args : List AttrVal) (l : Leaf) (h : construct k args = some l) :
    l.reduce = (k, args) ∧ l.WF = true := by
  unfold construct at h
  split at h <;> first | (split at h <;> first | (injection h with h; subst h; exact ⟨rfl, by assumption⟩) | simp at h) | simp at h

end Leaf

/-! ### nested replace -/

theorem dictSet_lookup_same {β} (cs : List (String × β)) (k : String) (v : β) : (dictSet cs (k, v)).lookup k = some v := by
  induction cs with
  | nil => simp [dictSet, List.lookup]
  | cons c cs ih =>
    obtain ⟨k', v'⟩ := c
    simp only [dictSet]
    split
    · rename_i h; subst h; simp [List.lookup]
    · rename_i h
      have : (k == k') = false := by simpa using fun e => h e.symm
      simp only [List.lookup, this]; exact ih

theorem dictSet_lookup_other {β} (cs : List (String × β)) (kv : String × β) (k : String) (hne : k ≠ kv.1) :
    (dictSet cs kv).lookup k = cs.lookup k := by
  induction cs with
  | nil =>
    have : (k == kv.1) = false := by simpa using hne
    simp [dictSet, List.lookup, this]
  | cons c cs ih =>
    obtain ⟨k', v'⟩ := c
    simp only [dictSet]
    split
    · rename_i h
      have : (k == k') = false := by rw [h]; simpa using hne
      simp [List.lookup, this]
    · simp only [List.lookup]; rw [ih]

/-- keys after an update: the old keys in their order, a new key appended -/
theorem dictSet_keys {β} (cs : List (String × β)) (kv : String × β) :
    (dictSet cs kv).map (·.1) = if kv.1 ∈ cs.map (·.1) then cs.map (·.1) else cs.map (·.1) ++ [kv.1] := by
  induction cs with
  | nil => simp [dictSet]
  | cons c cs ih =>
    obtain ⟨k', v'⟩ := c
    simp only [dictSet]
    split
    · rename_i h; simp [h]
    · rename_i h
      simp only [List.map_cons, ih, List.mem_cons]
      have : ¬ kv.1 = k' := fun e => h e.symm
      simp only [this, false_or]
      split <;> simp

theorem Node.replace_nil (n : Node) : n.replace [] = n := by
  cases n; rfl

theorem foldl_dictSet_lookup_other {β} (cs : List (String × β)) (kws : List (String × β)) (k : String)
    (hn : k ∉ kws.map (·.1)) : (kws.foldl dictSet cs).lookup k = cs.lookup k := by
  induction kws generalizing cs with
  | nil => rfl
  | cons kv kws ih =>
    simp only [List.map_cons, List.mem_cons, not_or] at hn
    simp only [List.foldl_cons]
    rw [ih _ hn.2, dictSet_lookup_other cs kv k hn.1]

/-- nested `replace` changes only the named children (and keeps the spec's own name) … -/
theorem Node.replace_only_named (n : Node) (kws : List (String × Nested)) (k : String) (hn : k ∉ kws.map (·.1)) :
    (n.replace kws).child k = n.child k ∧ (n.replace kws).name = n.name :=
  ⟨foldl_dictSet_lookup_other n.children kws k hn, rfl⟩

/-- … and every named child is the given spec (keyword arguments are distinct) -/
theorem Node.replace_named (n : Node) (kws : List (String × Nested)) (hnd : (kws.map (·.1)).Nodup) :
    ∀ kv ∈ kws, (n.replace kws).child kv.1 = some kv.2 := by
  unfold Node.replace Node.child
  simp only []
  generalize n.children = cs
  induction kws generalizing cs with
  | nil => simp
  | cons kv kws ih =>
    simp only [List.map_cons, List.nodup_cons] at hnd
    intro x hx
    simp only [List.foldl_cons]
    rcases List.mem_cons.1 hx with rfl | hx
    · rw [foldl_dictSet_lookup_other _ kws _ hnd.1]
      exact dictSet_lookup_same cs x.1 x.2
    · exact ih hnd.2 _ x hx

end Sp
