import JumanjiModel.Spec.Spec
namespace Sp

theorem broadcastTo_length {src data dst r} (h : broadcastTo src data dst = some r) : r.length = prod dst := by
  unfold broadcastTo at h
  split at h
  · injection h with h; subst h; simp
  · simp at h

theorem zipWith_all_getElem {α β} (f : α → β → Bool) (as : List α) (bs : List β) :
    (List.zipWith f as bs).all id = true ↔ ∀ k (h1 : k < as.length) (h2 : k < bs.length), f as[k] bs[k] = true := by
  induction as generalizing bs with
  | nil => simp
  | cons a as ih =>
    cases bs with
    | nil => simp
    | cons b bs =>
      simp only [List.zipWith_cons_cons, List.all_cons, id, Bool.and_eq_true, ih, List.length_cons]
      constructor
      · rintro ⟨h0, hr⟩ k h1 h2
        cases k with
        | zero => simpa using h0
        | succ k => simpa using hr k (by omega) (by omega)
      · intro h
        exact ⟨by simpa using h 0 (by omega) (by omega), fun k h1 h2 => h (k+1) (Nat.succ_lt_succ h1) (Nat.succ_lt_succ h2)⟩

namespace Leaf

/-- the characterisation of `validate` -/
theorem valid_iff (l : Leaf) (v : Arr) : l.valid v = true ↔
    v.shape = l.shape ∧ v.dtype = l.dtype ∧ v.data.length = prod l.shape ∧
    ((l.lower = none ∧ l.upper = none) ∨
     ∃ lo hi, l.lower = some lo ∧ l.upper = some hi ∧
       ∀ k (h1 : k < v.data.length) (h2 : k < (List.zip lo hi).length),
         (List.zip lo hi)[k].1 ≤ v.data[k] ∧ v.data[k] ≤ (List.zip lo hi)[k].2) := by
  unfold valid
  cases hl : l.lower <;> cases hu : l.upper
  · simp [and_assoc]
  · simp
  · simp
  · simp only [Bool.and_eq_true, decide_eq_true_eq, beq_iff_eq, zipWith_all_getElem, and_assoc]
    simp

theorem lower_length_of_WF (l : Leaf) (h : l.WF = true) (lo : List Rat) (hlo : l.lower = some lo) :
    lo.length = prod l.shape := by
  cases l with
  | array => simp [lower] at hlo
  | bounded s d n ms m xs x => simp [lower] at hlo; simpa [shape] using broadcastTo_length hlo
  | discrete k d n => simp [lower] at hlo; subst hlo; simp [shape, prod]
  | multiDiscrete s nv d n =>
    simp [lower] at hlo; subst hlo
    simp [WF] at h
    simp [shape, h.1.1]

theorem generate_valid (l : Leaf) (h : l.WF = true) : l.valid l.generate = true := by
  rw [valid_iff]
  cases hl : l.lower with
  | none =>
    have hu : l.upper = none := by
      cases l <;> simp_all [lower, upper, WF]
    simp [generate, hl, hu]
  | some lo =>
    have hlen := lower_length_of_WF l h lo hl
    simp only [generate, hl, true_and, hlen]
    right
    cases l with
    | array => simp [lower] at hl
    | bounded s d n ms m xs x =>
      simp only [WF, Bool.and_eq_true] at h
      obtain ⟨_, hle⟩ := h
      rw [hl] at hle
      cases hu : (bounded s d n ms m xs x).upper with
      | none => simp [hu] at hle
      | some hi =>
        simp only [hu, zipWith_all_getElem, decide_eq_true_eq] at hle
        refine ⟨lo, hi, rfl, rfl, ?_⟩
        intro k h1 h2
        simp only [List.getElem_zip]
        simp at h2
        exact ⟨by grind, hle k (by omega) (by omega)⟩
    | discrete k d n =>
      simp [lower] at hl; subst hl
      simp [WF] at h
      refine ⟨[0], [(((k:Int) - 1 : Int) : Rat)], rfl, by simp [upper], ?_⟩
      intro j h1 h2
      have hj : j = 0 := by simp at h2; omega
      subst hj
      simp only [List.getElem_zip, List.getElem_cons_zero]
      have : (0:Int) ≤ (k:Int) - 1 := by omega
      refine ⟨by grind, ?_⟩
      exact_mod_cast this
    | multiDiscrete s nv d n =>
      simp [lower] at hl; subst hl
      simp [WF] at h
      refine ⟨nv.map (fun _ => (0 : Rat)), nv.map (fun (n : Nat) => ((((n : Int) - 1 : Int)) : Rat)), rfl, by simp [upper], ?_⟩
      intro j h1 h2
      simp at h1 h2
      simp only [List.getElem_zip, List.getElem_map]
      have hp := h.1.2 nv[j] (List.getElem_mem _)
      have : (0:Int) ≤ (nv[j]:Int) - 1 := by omega
      refine ⟨by grind, ?_⟩
      exact_mod_cast this

theorem beq_refl (l : Leaf) : l.beq l = true := by cases l <;> simp [beq]

theorem beq_symm (a b : Leaf) : a.beq b = b.beq a := by
  rw [Bool.eq_iff_iff]
  cases a <;> cases b <;> simp only [beq, Bool.and_eq_true, beq_iff_eq] <;> grind

theorem beq_trans (a b c : Leaf) (h1 : a.beq b = true) (h2 : b.beq c = true) : a.beq c = true := by
  cases a <;> cases b <;> cases c <;> simp only [beq, Bool.and_eq_true, beq_iff_eq] at * <;> grind

/-- equal specs agree on every attribute: any difference in shape, dtype, name, bounds or
num_values makes `==` false -/
theorem beq_attrs (a b : Leaf) (h : a.beq b = true) :
    a.shape = b.shape ∧ a.dtype = b.dtype ∧ a.name = b.name ∧ a.lower = b.lower ∧ a.upper = b.upper := by
  cases a <;> cases b <;> simp only [beq, Bool.and_eq_true, beq_iff_eq, lower, upper] at h <;>
    simp only [shape, dtype, name, lower, upper] <;> grind

theorem beq_numValues {k d n k' d' n'} (h : (discrete k d n).beq (discrete k' d' n') = true) : k = k' := by
  simp [beq] at h; exact h.1.1

theorem beq_numValuesArr {s nv d n s' nv' d' n'}
    (h : (multiDiscrete s nv d n).beq (multiDiscrete s' nv' d' n') = true) : nv = nv' := by
  simp [beq] at h; exact h.1.1.2

theorem replace_nil (l : Leaf) (h : l.WF = true) : l.replace [] = some l := by
  simp [replace, h]

/-- replacing only the name changes only the name -/
theorem replace_name (l l' : Leaf) (n : String) (h : l.replace [.name n] = some l') :
    l'.name = n ∧ l'.shape = l.shape ∧ l'.dtype = l.dtype ∧ l'.lower = l.lower ∧ l'.upper = l.upper := by
  unfold replace at h
  split at h
  · injection h with h; subst h
    cases l <;> simp [apply1, name, shape, dtype, lower, upper]
  · simp at h

theorem replace_dtype (l l' : Leaf) (d : DType) (h : l.replace [.dtype d] = some l') :
    l'.dtype = d ∧ l'.shape = l.shape ∧ l'.name = l.name := by
  unfold replace at h
  split at h
  · injection h with h; subst h
    cases l <;> simp [apply1, name, shape, dtype]
  · simp at h

theorem replace_shape (l l' : Leaf) (s : List Nat) (h : l.replace [.shape s] = some l') :
    l'.shape = s ∧ l'.dtype = l.dtype ∧ l'.name = l.name := by
  unfold replace at h
  split at h
  · rename_i hacc
    injection h with h; subst h
    cases l <;> simp_all [apply1, name, shape, dtype, accepts]
  · simp at h

theorem replace_WF (l l' : Leaf) (kws : List Kw) (h : l.replace kws = some l') : l'.WF = true := by
  unfold replace at h
  split at h
  · rename_i hw; injection h with h; subst h
    simp only [Bool.and_eq_true] at hw; exact hw.2
  · simp at h

end Leaf

theorem Nested.generate_valid (s : Nested) (h : ∀ p ∈ s, p.2.WF = true) : s.valid s.generate = true := by
  simp only [Nested.valid, Nested.generate, Bool.and_eq_true, beq_iff_eq, zipWith_all_getElem]
  refine ⟨by simp, ?_⟩
  intro k h1 h2
  simp only [List.getElem_map]
  exact Leaf.generate_valid _ (h _ (List.getElem_mem _))

/-- nested specs are equal exactly when they have the same child names and the children are
pairwise equal -/
theorem Nested.beq_iff (a b : Nested) : a.beq b = true ↔
    a.map (·.1) = b.map (·.1) ∧ ∀ k (h1 : k < a.length) (h2 : k < b.length), a[k].2.beq b[k].2 = true := by
  simp only [Nested.beq, Bool.and_eq_true, beq_iff_eq, zipWith_all_getElem]

theorem Nested.beq_refl (a : Nested) : a.beq a = true := by
  rw [Nested.beq_iff]; exact ⟨rfl, fun k h1 _ => Leaf.beq_refl _⟩

theorem Nested.beq_symm (a b : Nested) : a.beq b = b.beq a := by
  rw [Bool.eq_iff_iff, Nested.beq_iff, Nested.beq_iff]
  constructor <;> (rintro ⟨h1, h2⟩; exact ⟨h1.symm, fun k ha hb => by rw [Leaf.beq_symm]; exact h2 k hb ha⟩)

/-- every value valid for a (well-formed) spec belongs to the gym space converted from it -/
theorem toGym_member (l : Leaf) (hw : l.WF = true) (v : Arr) (h : l.valid v = true) :
    (toGym l).contains v = true := by
  rw [Leaf.valid_iff] at h
  obtain ⟨hs, hd, hlen, hb⟩ := h
  cases l with
  | array s d n =>
    simp [toGym, Gym.contains, Leaf.lower, Leaf.upper, Leaf.shape, Leaf.dtype] at *
    exact ⟨hs, hd⟩
  | bounded s d n ms m xs x =>
    rcases hb with ⟨h1, _⟩ | ⟨lo, hi, h1, h2, hk⟩
    · simp only [Leaf.WF, Bool.and_eq_true] at hw
      rw [h1] at hw; simp at hw
    · simp only [toGym, Gym.contains, h1, h2, Bool.and_eq_true, decide_eq_true_eq, zipWith_all_getElem]
      have l1 := broadcastTo_length (by simpa [Leaf.lower] using h1)
      have l2 := broadcastTo_length (by simpa [Leaf.upper] using h2)
      simp [Leaf.shape] at hlen
      refine ⟨⟨⟨hs, hd⟩, ?_⟩, ?_⟩
      · intro k a b
        have := hk k a (by simp; omega)
        simp only [List.getElem_zip] at this
        exact this.1
      · intro k a b
        have := hk k a (by simp; omega)
        simp only [List.getElem_zip] at this
        exact this.2
  | discrete k d n =>
    rcases hb with ⟨h1, _⟩ | ⟨lo, hi, h1, h2, hk⟩
    · simp [Leaf.lower] at h1
    · simp [Leaf.lower] at h1; simp [Leaf.upper] at h2; subst h1; subst h2
      simp [Leaf.WF] at hw
      simp [Leaf.shape, prod] at hlen hs
      simp [Leaf.dtype] at hd
      match hv : v.data, hlen with
      | [x], _ =>
        simp [toGym, Gym.contains, hv, hs, hd, hw.2]
        have := hk 0 (by simp [hv]) (by simp)
        simp [hv] at this
        refine ⟨this.1, ?_⟩
        have e : (((k:Int) - 1 : Int) : Rat) = (k : Rat) - 1 := by
          simp [Rat.intCast_sub, Rat.intCast_natCast]
        grind
  | multiDiscrete s nv d n =>
    rcases hb with ⟨h1, _⟩ | ⟨lo, hi, h1, h2, hk⟩
    · simp [Leaf.lower] at h1
    · simp [Leaf.lower] at h1; simp [Leaf.upper] at h2; subst h1; subst h2
      simp [Leaf.WF] at hw
      simp [Leaf.shape] at hlen hs
      simp [Leaf.dtype] at hd
      simp only [toGym, Gym.contains, Bool.and_eq_true, decide_eq_true_eq, zipWith_all_getElem, hd, hw.2, hs,
        beq_iff_eq, true_and]
      refine ⟨by omega, ?_⟩
      intro j a b
      have := hk j a (by simp; omega)
      simp only [List.getElem_zip, List.getElem_map] at this
      refine ⟨this.1, ?_⟩
      have e : (((nv[j]:Int) - 1 : Int) : Rat) = (nv[j] : Rat) - 1 := by
        simp [Rat.intCast_sub, Rat.intCast_natCast]
      grind

end Sp
