/-
`jumanji/registration.py`: the id grammar and the registry.  Import-free.

Characters are abstract (`α`), with the classes of Python's `re` as parameters: `W` = `\w`, `D` = `\d`
(both Unicode-aware in Python 3), the letters `dash` = '-', `vee` = 'v', `colon`, `dot`, and the
decimal value `val` of a digit.  The bridge instantiates them per character with what Python's own
`re`/`unicodedata` say; the theorems hold for every instantiation satisfying the stated hypotheses.
-/
namespace Reg

structure Cls (α : Type) where
  W : α → Bool
  D : α → Bool
  val : α → Nat
  dash : α
  vee : α
  colon : α
  dot : α

variable {α : Type} [DecidableEq α] (C : Cls α)

/-- `[\w:.-]` -/
def nameChar (c : α) : Bool := C.W c || c == C.colon || c == C.dot || c == C.dash

/-- L1: does the remainder match `(?:-v(?P<version>\d+))?$` — `some none` = empty remainder,
`some (some ds)` = `-v` followed by the non-empty digit string `ds` -/
def restMatch (r : List α) : Option (Option (List α)) :=
  match r with
  | [] => some none
  | c1 :: c2 :: ds =>
    if c1 = C.dash ∧ c2 = C.vee ∧ ds ≠ [] ∧ ds.all C.D = true then some (some ds) else none
  | _ => none

/-- L1: the lazy group `[\w:.-]+?` has consumed `pre` (non-empty); try the remainder, else extend
the name by one character — exactly the backtracking order of the regex engine -/
def matchFrom (pre : List α) : List α → Option (List α × Option (List α))
  | [] => some (pre, none)
  | c :: cs =>
    match restMatch C (c :: cs) with
    | some v => some (pre, v)
    | none => if nameChar C c then matchFrom (pre ++ [c]) cs else none

/-- L1: `ENV_NAME_RE.fullmatch(id)` → (name, version digits) -/
def matchId : List α → Option (List α × Option (List α))
  | [] => none
  | c :: cs => if nameChar C c then matchFrom C [c] cs else none

/-- `int(version)` -/
def valOf (ds : List α) : Nat := ds.foldl (fun acc c => acc * 10 + C.val c) 0

inductive ParseError | malformed | versionMissing
  deriving DecidableEq, Repr

/-- `parse_env_id` -/
def parse (s : List α) : Except ParseError (List α × Nat) :=
  match matchId C s with
  | none => .error .malformed
  | some (_, none) => .error .versionMissing
  | some (name, some ds) => .ok (name, valOf C ds)

/-! ### L2: the documented grammar `<env-name>-v<version>` -/

def NameOK (n : List α) : Prop := n ≠ [] ∧ ∀ c ∈ n, nameChar C c = true
def DigitsOK (ds : List α) : Prop := ds ≠ [] ∧ ∀ c ∈ ds, C.D c = true

/-- `s` is a well-formed id with name `n` and version digits `ds` -/
def WellFormed (s n ds : List α) : Prop := s = n ++ C.dash :: C.vee :: ds ∧ NameOK C n ∧ DigitsOK C ds

/-! ### decimal formatting (`f"-v{version}"`) over an abstract digit alphabet -/

/-- canonical decimal digits of `n`, most significant first (`fuel` ≥ number of digits) -/
def digitsAux (dig : Nat → α) : Nat → Nat → List α → List α
  | 0, _, acc => acc
  | fuel+1, n, acc => if n < 10 then dig n :: acc else digitsAux dig fuel (n / 10) (dig (n % 10) :: acc)

def digitsOf (dig : Nat → α) (n : Nat) : List α := digitsAux dig (n + 1) n []

/-- `get_env_id` -/
def format (dig : Nat → α) (name : List α) (version : Nat) : List α :=
  name ++ C.dash :: C.vee :: digitsOf dig version

/-! ### the registry: an insertion-ordered map id → (entry point, kwargs) -/

structure EnvSpec (κ ν : Type) where
  entryPoint : String
  kwargs : List (κ × ν)
  deriving DecidableEq, Repr

abbrev Registry (α κ ν : Type) := List (List α × EnvSpec κ ν)

inductive RegError (α : Type) | parse (e : ParseError) | alreadyRegistered (id : List α)
  | unregistered (id : List α) (registered : List (List α))
  deriving Repr

variable {κ ν : Type} [DecidableEq κ]

/-- `register(id, entry_point, **kwargs)` -/
def register (dig : Nat → α) (r : Registry α κ ν) (id : List α) (ep : String) (kw : List (κ × ν)) :
    Except (RegError α) (Registry α κ ν) :=
  match parse C id with
  | .error e => .error (.parse e)
  | .ok (name, version) =>
    if (r.map (·.1)).contains (format C dig name version) then
      .error (.alreadyRegistered (format C dig name version))
    else .ok (r ++ [(format C dig name version, { entryPoint := ep, kwargs := kw })])

/-- `dict.update`: caller's kwargs override registered ones, others are kept -/
def mergeKwargs (reg caller : List (κ × ν)) : List (κ × ν) :=
  reg.filter (fun p => !(caller.map (·.1)).contains p.1) ++ caller

/-- `make(id, **kwargs)` → (entry point, constructor kwargs) -/
def make (dig : Nat → α) (r : Registry α κ ν) (id : List α) (kw : List (κ × ν)) :
    Except (RegError α) (String × List (κ × ν)) :=
  match parse C id with
  | .error e => .error (.parse e)
  | .ok (name, version) =>
    match r.lookup (format C dig name version) with
    | none => .error (.unregistered (format C dig name version) (r.map (·.1)))
    | some sp => .ok (sp.entryPoint, mergeKwargs sp.kwargs kw)

def registered (r : Registry α κ ν) : List (List α) := r.map (·.1)

end Reg
