/-
`jumanji/tree_utils.py` (tree_transpose, tree_slice, tree_add_element) and
`jumanji/testing/pytrees.py` (is_equal_pytree, assert_trees_are_different).  Import-free.

A pytree is what JAX makes of it: a tree definition (opaque token with decidable equality) and
the flat list of its leaves; `tree_map f t₁ … tₙ` = unflatten(treedef, map f (zip leaves)) and
is defined only when the tree definitions agree.  A *batched* leaf is the list of its slices along
the leading axis (`jnp.stack(xs, 0)` = `xs`; `x[i]` = the i-th slice).
-/
import JumanjiModel.Prim.Idx
namespace Pytree

structure PTree (τ β : Type) where
  td : τ
  leaves : List β
  deriving DecidableEq, Repr

variable {τ β : Type} [DecidableEq τ]

/-- all trees have the tree definition `td` and `n` leaves -/
def SameStructure (td : τ) (n : Nat) (ts : List (PTree τ β)) : Prop :=
  ∀ t ∈ ts, t.td = td ∧ t.leaves.length = n

/-- column `j` of the leaves of a list of trees = `jnp.stack([t.leaves[j] for t in ts], 0)` -/
def column (ts : List (PTree τ β)) (j : Nat) : List β := ts.filterMap (fun t => t.leaves[j]?)

/-- `tree_transpose` for a non-empty list of identically structured trees -/
def transpose (td : τ) (n : Nat) (ts : List (PTree τ β)) : PTree τ (List β) :=
  { td := td, leaves := (List.range n).map (column ts) }

/-- static integer index into a leading axis of length `n`: NumPy semantics (negative wraps once,
out of range is an error) -/
def staticIdx (n : Nat) (i : Int) : Option Nat :=
  let j := Jx.wrapIdx n i
  if j < 0 then none else if j ≥ (n : Int) then none else some j.toNat

/-- `tree_slice tree i` = `tree_map (fun x => x[i]) tree`; `none` = IndexError -/
def slice (t : PTree τ (List β)) (i : Int) : Option (PTree τ β) :=
  (t.leaves.mapM (fun x => (staticIdx x.length i).bind (fun k => x[k]?))).map (fun ls => { td := t.td, leaves := ls })

/-- `tree_add_element tree i element` = `tree_map (fun a v => a.at[i].set(v)) tree element`
(defined when the structures agree) -/
def addElement (t : PTree τ (List β)) (i : Int) (e : PTree τ β) : Option (PTree τ (List β)) :=
  if t.td = e.td ∧ t.leaves.length = e.leaves.length then
    some { td := t.td, leaves := List.zipWith (fun a v => Jx.setWD a i v) t.leaves e.leaves }
  else none

/-! ### the equality helper.  A leaf is (shape, flat data); `np.array_equal` = same shape and
same elements. -/

structure Leaf (ε : Type) where
  shape : List Nat
  data : List ε
  deriving DecidableEq, Repr

variable {ε : Type} [DecidableEq ε]

def arrayEqual (a b : Leaf ε) : Bool := decide (a.shape = b.shape) && decide (a.data = b.data)

/-- `is_equal_pytree` (requires the same structure: `tree.map_structure` raises otherwise → none) -/
def isEqual (t1 t2 : PTree τ (Leaf ε)) : Option Bool :=
  if t1.td = t2.td ∧ t1.leaves.length = t2.leaves.length then
    some ((List.zipWith arrayEqual t1.leaves t2.leaves).all id)
  else none

/-- why an assertion helper does not return: the `assert` failed, or `tree.map_structure` raised because the
structures differ -/
inductive AssertErr
  | sameValues          -- AssertionError("The trees have the same value(s) for all leaves.")
  | differ              -- AssertionError("The trees differ in at least one leaf's value(s).")
  | structureMismatch   -- ValueError / TypeError of `tree.map_structure`
  deriving DecidableEq, Repr

/-- `assert_trees_are_different`: `assert not is_equal_pytree(tree1, tree2), …` -/
def assertDifferent (t1 t2 : PTree τ (Leaf ε)) : Except AssertErr Unit :=
  match isEqual t1 t2 with
  | none => .error .structureMismatch
  | some b => if !b then .ok () else .error .sameValues

/-- `assert_trees_are_equal`: `assert is_equal_pytree(tree1, tree2), …` -/
def assertEqual (t1 t2 : PTree τ (Leaf ε)) : Except AssertErr Unit :=
  match isEqual t1 t2 with
  | none => .error .structureMismatch
  | some b => if b then .ok () else .error .differ

/-! ### dtype-tagged leaves: `array.at[i].set(value)` CASTS `value` to the array's dtype.  A batched leaf is
(dtype, slices along axis 0), an element leaf is (dtype, value); `cast from to v` is `v.astype(to)` for a `v` of
dtype `from`. -/

structure TArr (δ β : Type) where
  dtype : δ
  slices : List β
  deriving DecidableEq, Repr

structure TVal (δ β : Type) where
  dtype : δ
  val : β
  deriving DecidableEq, Repr

variable {δ : Type}

/-- `tree_slice` on typed leaves: `x[i]` has the dtype of `x` -/
def sliceT (t : PTree τ (TArr δ β)) (i : Int) : Option (PTree τ (TVal δ β)) :=
  (t.leaves.mapM (fun x => ((staticIdx x.slices.length i).bind (fun k => x.slices[k]?)).map
      (fun v => ({ dtype := x.dtype, val := v } : TVal δ β)))).map (fun ls => { td := t.td, leaves := ls })

/-- `tree_add_element` on typed leaves.  `array.at[i].set(value)` with operands of different dtypes PROMOTES both to
`promote array.dtype value.dtype`, scatters, and converts the result back to the array's dtype (JAX's implicit scatter
promotion) — so with a dtype mismatch EVERY entry of the array takes a round trip through the promoted dtype -/
def addElementT (promote : δ → δ → δ) (cast : δ → δ → β → β) (t : PTree τ (TArr δ β)) (i : Int)
    (e : PTree τ (TVal δ β)) : Option (PTree τ (TArr δ β)) :=
  if t.td = e.td ∧ t.leaves.length = e.leaves.length then
    some { td := t.td,
           leaves := List.zipWith (fun (a : TArr δ β) (v : TVal δ β) =>
             ({ dtype := a.dtype,
                slices := (Jx.setWD (a.slices.map (cast a.dtype (promote a.dtype v.dtype))) i
                             (cast v.dtype (promote a.dtype v.dtype) v.val)).map
                          (cast (promote a.dtype v.dtype) a.dtype) } : TArr δ β)) t.leaves e.leaves }
  else none

/-- a valid static index of an axis of length `n`, normalised: `-n ≤ i < n` ↦ `i mod n` -/
def normIdx (n : Nat) (i : Int) : Nat := (Jx.wrapIdx n i).toNat

end Pytree
