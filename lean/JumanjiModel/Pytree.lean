/-
`jumanji/tree_utils.py` (tree_transpose, tree_slice, tree_add_element) and
`jumanji/testing/pytrees.py` (is_equal_pytree, assert_trees_are_different).  Import-free.

A pytree is what JAX makes of it: a tree definition (opaque token with decidable equality) and
the flat list of its leaves; `tree_map f t₁ … tₙ` = unflatten(treedef, map f (zip leaves)) and
is defined only when the tree definitions agree.  A *batched* leaf is the list of its slices along
the leading axis (`jnp.stack(xs, 0)` = `xs`; `x[i]` = the i-th slice).
-/
import JumanjiModel.Prim.Idx
namespace Pytree

structure PTree (τ β : Type) where
  td : τ
  leaves : List β
  deriving DecidableEq, Repr

variable {τ β : Type} [DecidableEq τ]

/-- all trees have the tree definition `td` and `n` leaves -/
def SameStructure (td : τ) (n : Nat) (ts : List (PTree τ β)) : Prop :=
  ∀ t ∈ ts, t.td = td ∧ t.leaves.length = n

/-- column `j` of the leaves of a list of trees = `jnp.stack([t.leaves[j] for t in ts], 0)` -/
def column (ts : List (PTree τ β)) (j : Nat) : List β := ts.filterMap (fun t => t.leaves[j]?)

/-- `tree_transpose` for a non-empty list of identically structured trees -/
def transpose (td : τ) (n : Nat) (ts : List (PTree τ β)) : PTree τ (List β) :=
  { td := td, leaves := (List.range n).map (column ts) }

/-- static integer index into a leading axis of length `n`: NumPy semantics (negative wraps once,
out of range is an error) -/
def staticIdx (n : Nat) (i : Int) : Option Nat :=
  let j := Jx.wrapIdx n i
  if j < 0 then none else if j ≥ (n : Int) then none else some j.toNat

/-- `tree_slice tree i` = `tree_map (fun x => x[i]) tree`; `none` = IndexError -/
def slice (t : PTree τ (List β)) (i : Int) : Option (PTree τ β) :=
  (t.leaves.mapM (fun x => (staticIdx x.length i).bind (fun k => x[k]?))).map (fun ls => { td := t.td, leaves := ls })

/-- `tree_add_element tree i element` = `tree_map (fun a v => a.at[i].set(v)) tree element`
(defined when the structures agree) -/
def addElement (t : PTree τ (List β)) (i : Int) (e : PTree τ β) : Option (PTree τ (List β)) :=
  if t.td = e.td ∧ t.leaves.length = e.leaves.length then
    some { td := t.td, leaves := List.zipWith (fun a v => Jx.setWD a i v) t.leaves e.leaves }
  else none

/-! ### the equality helper.  A leaf is (shape, flat data); `np.array_equal` = same shape and
same elements. -/

structure Leaf (ε : Type) where
  shape : List Nat
  data : List ε
  deriving DecidableEq, Repr

variable {ε : Type} [DecidableEq ε]

def arrayEqual (a b : Leaf ε) : Bool := decide (a.shape = b.shape) && decide (a.data = b.data)

/-- `is_equal_pytree` (requires the same structure: `tree.map_structure` raises otherwise → none) -/
def isEqual (t1 t2 : PTree τ (Leaf ε)) : Option Bool :=
  if t1.td = t2.td ∧ t1.leaves.length = t2.leaves.length then
    some ((List.zipWith arrayEqual t1.leaves t2.leaves).all id)
  else none

/-- `assert_trees_are_different` raises AssertionError iff this is `some true` -/
def assertDifferentFails (t1 t2 : PTree τ (Leaf ε)) : Option Bool := isEqual t1 t2

end Pytree
