/-
A description language for ONE random call of the source (`jax.random.randint(key, shape, minval, maxval)`,
`jax.random.uniform(...)`, `jax.random.choice(...)`, …) with its bounds as expressions over constructor attributes and
local names, and the SUPPORT of such a call: which values it can return.  `Gen/Draws.lean` is GENERATED from the source of
every environment package on every run (harness/translators.py, gen_draws); the theorems of `Props/Draws.lean` show that a
value in the support of the GENERATED description satisfies the hand-written `validDraw` / `validUniform` predicate of the
Lean generator model, which until then was tied to the source only by sampling.  Import-free.

Direction of every approximation: `inSupport` is used as a HYPOTHESIS.  Whatever the translator did not recognise
(`.unknown`, a missing table entry, a value of another kind or rank than the call returns) therefore gives NO information
(`True` for that component) — a theorem that needs the information can then not be proved, which is the intended alarm.
The non-vacuity `example`s of Props/Draws.lean guard the other direction.
-/
namespace DrawRange

/-- scalar expressions -/
inductive X
  | attr (n : String)            -- `self.n` / `self._n` / a local name `n` / a subscripted name (`early_coef_rand[0]`)
  | int (i : Int)
  | lit (num : Int) (den : Nat)  -- a decimal literal `num/den`
  | add (a b : X) | sub (a b : X) | mul (a b : X) | fdiv (a b : X) | pow (a : X) (k : Nat) | neg (a : X)
  | len (n : String)             -- `len(n)`
  | unknown (src : String)
  deriving Repr, DecidableEq

/-- what the names of a description stand for -/
structure Env where
  /-- integer-valued names (constructor attributes, integer locals; `len(x)` is looked up as `"len(x)"`) -/
  i : String → Int
  /-- rational-valued names (float attributes) -/
  q : String → Rat
  /-- run-time integer arrays (populations of `choice` / `permutation`), keyed by their source text -/
  arr : String → List Int
  /-- run-time weight vectors (`p=` of `choice`; a Boolean mask is its 0/1 vector), keyed by their source text -/
  w : String → List Rat

/-- all names integer-valued, no run-time arrays -/
def Env.ofInt (ρ : String → Int) : Env := ⟨ρ, fun n => ((ρ n : Int) : Rat), fun _ => [], fun _ => []⟩

/-- integer value; `none`: not recognised, or not an integer (no information) -/
def X.evalI (ρ : Env) : X → Option Int
  | .attr n => some (ρ.i n)
  | .int i => some i
  | .lit n d => if d = 1 then some n else none
  | .add a b => do let x ← a.evalI ρ; let y ← b.evalI ρ; pure (x + y)
  | .sub a b => do let x ← a.evalI ρ; let y ← b.evalI ρ; pure (x - y)
  | .mul a b => do let x ← a.evalI ρ; let y ← b.evalI ρ; pure (x * y)
  -- Python `//` with a positive divisor is the floor = Euclidean quotient; other divisors: no information
  | .fdiv a b => do let x ← a.evalI ρ; let y ← b.evalI ρ; if 0 < y then pure (x / y) else none
  | .pow a k => do let x ← a.evalI ρ; pure (x ^ k)
  | .neg a => do let x ← a.evalI ρ; pure (-x)
  | .len n => some (ρ.i ("len(" ++ n ++ ")"))
  | .unknown _ => none

/-- rational value -/
def X.evalQ (ρ : Env) : X → Option Rat
  | .attr n => some (ρ.q n)
  | .int i => some (i : Rat)
  | .lit n d => if d = 0 then none else some ((n : Rat) / ((d : Int) : Rat))
  | .add a b => do let x ← a.evalQ ρ; let y ← b.evalQ ρ; pure (x + y)
  | .sub a b => do let x ← a.evalQ ρ; let y ← b.evalQ ρ; pure (x - y)
  | .mul a b => do let x ← a.evalQ ρ; let y ← b.evalQ ρ; pure (x * y)
  | .fdiv a b => (X.evalI ρ (.fdiv a b)).map (fun (z : Int) => (z : Rat))
  | .pow a k => do let x ← a.evalQ ρ; pure (x ^ k)
  | .neg a => do let x ← a.evalQ ρ; pure (-x)
  | .len n => some ((ρ.i ("len(" ++ n ++ ")") : Int) : Rat)
  | .unknown _ => none

def evalList (ρ : Env) : List X → Option (List Int)
  | [] => some []
  | x :: xs => do let a ← x.evalI ρ; let as ← evalList ρ xs; pure (a :: as)

/-- the `shape=` argument -/
inductive Shape
  | dims (ds : List X)
  | unknown (src : String)
  deriving Repr, DecidableEq

/-- `minval=` / `maxval=`: one scalar for every element, or one scalar per element of a vector draw
(`minval=jnp.zeros(2)`, `maxval=jnp.array((rows, cols))`) -/
inductive Bound
  | all (x : X)
  | each (xs : List X)
  deriving Repr, DecidableEq

/-- the population `a` of `choice` / `x` of `permutation` -/
inductive Pop
  | range (n : X)            -- an integer `n` or `jnp.arange(n)`
  | lits (xs : List Int)     -- `jnp.array([1, 2])`
  | named (src : String)     -- a run-time array
  deriving Repr, DecidableEq

/-- the `p=` argument of `choice` -/
inductive Wt
  | none
  | lits (ws : List (Int × Nat))   -- literal weights `num/den`
  | named (src : String)           -- a run-time vector (a mask)
  deriving Repr, DecidableEq

/-- one random call -/
inductive Draw
  | randint (sh : Shape) (lo hi : Bound)                     -- integers of `[lo, hi)`
  | uniform (sh : Shape) (lo hi : Bound)                     -- reals of `[lo, hi)`
  | bernoulli (sh : Shape) (p : X)                           -- 0 / 1
  | choice (pop : Pop) (sh : Shape) (replace : Bool) (p : Wt)
  | permutation (pop : Pop)
  | categorical (sh : Shape) (logits : String)
  | other (fn : String)                                      -- another `jax.random` function, or arguments of a form not recognised
  | missing (key : String)                                   -- no such table entry
  deriving Repr, DecidableEq

/-- values of a draw (scalars, vectors, matrices of integers or rationals; Booleans are 0 / 1) -/
inductive Val
  | i0 (x : Int) | i1 (xs : List Int) | i2 (xss : List (List Int))
  | r0 (x : Rat) | r1 (xs : List Rat) | r2 (xss : List (List Rat))
  deriving Repr, DecidableEq

/-- the value has the given dimensions (a value of another rank: no information) -/
def Val.hasDims : Val → List Int → Prop
  | .i0 _, [] => True
  | .r0 _, [] => True
  | .i1 xs, [a] => (xs.length : Int) = a
  | .r1 xs, [a] => (xs.length : Int) = a
  | .i2 xss, [a, b] => (xss.length : Int) = a ∧ ∀ r ∈ xss, (r.length : Int) = b
  | .r2 xss, [a, b] => (xss.length : Int) = a ∧ ∀ r ∈ xss, (r.length : Int) = b
  | _, _ => True

instance (v : Val) (ds : List Int) : Decidable (v.hasDims ds) := by
  unfold Val.hasDims; split <;> infer_instance

def shapeOK (ρ : Env) (sh : Shape) (v : Val) : Prop :=
  match sh with
  | .dims ds => match evalList ρ ds with
    | some l => v.hasDims l
    | none => True
  | .unknown _ => True

instance (ρ : Env) (sh : Shape) (v : Val) : Decidable (shapeOK ρ sh v) := by
  unfold shapeOK; split
  · split <;> infer_instance
  · infer_instance

/-- number of elements -/
def Val.count : Val → Nat
  | .i0 _ => 1 | .r0 _ => 1 | .i1 xs => xs.length | .r1 xs => xs.length
  | .i2 xss => xss.flatten.length | .r2 xss => xss.flatten.length

/-- `jax.random.randint(minval=l, maxval=h)`: an integer of `[l, h)`; when `h ≤ l` the span is taken as 1 and the result
is `l` (`jax._src.random.randint`: `span = where(maxval <= minval, 1, span)`).  An unknown bound: no information from it. -/
def inRandint (lo hi : Option Int) (x : Int) : Prop :=
  match lo, hi with
  | some l, some h => l ≤ x ∧ (x < h ∨ x = l)
  | some l, none => l ≤ x
  | none, _ => True

instance (lo hi : Option Int) (x : Int) : Decidable (inRandint lo hi x) := by
  unfold inRandint; split <;> infer_instance

/-- `jax.random.uniform(minval=l, maxval=h)` computes `max(l, u·(h − l) + l)` in float32 for a unit uniform `u ∈ [0, 1)`:
a number of `[l, h)`; `l` itself when `h ≤ l`; and — only when `l ≠ 0`, where the final float addition can round up —
possibly `h` (with `l = 0` the product `u·h` is strictly below `h` in every binary format: `u ≤ 1 − 2ε`). -/
def inUniform (lo hi : Option Rat) (x : Rat) : Prop :=
  match lo, hi with
  | some l, some h => l ≤ x ∧ (x < h ∨ x = l ∨ (x = h ∧ l ≠ 0))
  | some l, none => l ≤ x
  | none, _ => True

instance (lo hi : Option Rat) (x : Rat) : Decidable (inUniform lo hi x) := by
  unfold inUniform; split <;> infer_instance

def Bound.atI (ρ : Env) : Bound → Nat → Option Int
  | .all x, _ => x.evalI ρ
  | .each xs, k => (xs[k]?).bind (X.evalI ρ)

def Bound.atQ (ρ : Env) : Bound → Nat → Option Rat
  | .all x, _ => x.evalQ ρ
  | .each xs, k => (xs[k]?).bind (X.evalQ ρ)

/-- the bound of a draw that is not a vector: a per-element bound gives no information there -/
def Bound.scI (ρ : Env) : Bound → Option Int
  | .all x => x.evalI ρ
  | .each _ => none

def Bound.scQ (ρ : Env) : Bound → Option Rat
  | .all x => x.evalQ ρ
  | .each _ => none

/-- the weight at index `k` allows `k` as the result of a draw WITH replacement: it is positive — or no weight is
(then `jax.random.choice` still returns something, and nothing is claimed about what) -/
def Wt.okAt (ρ : Env) : Wt → Nat → Prop
  | .none, _ => True
  | .lits ws, k => 0 < (ws.getD k (0, 1)).1 ∨ ∀ w ∈ ws, w.1 ≤ 0
  | .named s, k => 0 < (ρ.w s).getD k 0 ∨ ∀ w ∈ ρ.w s, w ≤ 0

instance (ρ : Env) (wt : Wt) (k : Nat) : Decidable (wt.okAt ρ k) := by
  unfold Wt.okAt; split <;> infer_instance

/-- … of a draw of `cnt` elements WITHOUT replacement (Gumbel top-`cnt`: entries of weight 0 come last, so they are
chosen only when fewer than `cnt` entries have a positive weight) -/
def Wt.okAtNR (ρ : Env) (cnt : Nat) : Wt → Nat → Prop
  | .none, _ => True
  | .lits ws, k => cnt ≤ (ws.filter (fun w => decide (0 < w.1))).length → 0 < (ws.getD k (0, 1)).1
  | .named s, k => cnt ≤ ((ρ.w s).filter (fun w => decide (0 < w))).length → 0 < (ρ.w s).getD k 0

instance (ρ : Env) (cnt : Nat) (wt : Wt) (k : Nat) : Decidable (wt.okAtNR ρ cnt k) := by
  unfold Wt.okAtNR; split <;> infer_instance

/-- `x` is an element of the population whose weight (judged by `ok`) allows it -/
def pickOK (ρ : Env) (ok : Nat → Prop) (pop : Pop) (x : Int) : Prop :=
  match pop with
  | .range n => match n.evalI ρ with
    | some m => 0 ≤ x ∧ x < m ∧ ok x.toNat
    | none => True
  | .lits xs => ∃ k, k < xs.length ∧ xs.getD k 0 = x ∧ ok k
  | .named s => ∃ k, k < (ρ.arr s).length ∧ (ρ.arr s).getD k 0 = x ∧ ok k

instance (ρ : Env) (ok : Nat → Prop) [DecidablePred ok] (pop : Pop) (x : Int) : Decidable (pickOK ρ ok pop x) := by
  unfold pickOK; split
  · split <;> infer_instance
  · infer_instance
  · infer_instance

/-- the population has no repeated element (always true of `arange`) -/
def Pop.nodup (ρ : Env) : Pop → Prop
  | .range _ => True
  | .lits xs => xs.Nodup
  | .named s => (ρ.arr s).Nodup

instance (ρ : Env) (pop : Pop) : Decidable (pop.nodup ρ) := by
  unfold Pop.nodup; split <;> infer_instance

/-- the population as a list, when it is known -/
def Pop.elems (ρ : Env) : Pop → Option (List Int)
  | .range n => (n.evalI ρ).map (fun m => (List.range m.toNat).map Int.ofNat)
  | .lits xs => some xs
  | .named s => some (ρ.arr s)

/-- the integer elements of a value (`none`: not an integer value) -/
def Val.ints : Val → Option (List Int)
  | .i0 x => some [x] | .i1 xs => some xs | .i2 xss => some xss.flatten | _ => none

def Val.rats : Val → Option (List Rat)
  | .r0 x => some [x] | .r1 xs => some xs | .r2 xss => some xss.flatten | _ => none

/-- THE SUPPORT: `v` can be the result of the call `d` when the names mean `ρ` -/
def inSupportE (d : Draw) (ρ : Env) (v : Val) : Prop :=
  match d, v with
  | .randint sh lo hi, .i0 x => shapeOK ρ sh v ∧ inRandint (lo.scI ρ) (hi.scI ρ) x
  | .randint sh (.all lo) (.all hi), .i1 xs => shapeOK ρ sh v ∧ ∀ x ∈ xs, inRandint (lo.evalI ρ) (hi.evalI ρ) x
  | .randint sh lo hi, .i1 xs => shapeOK ρ sh v ∧ ∀ k, (h : k < xs.length) → inRandint (lo.atI ρ k) (hi.atI ρ k) xs[k]
  | .randint sh lo hi, .i2 xss => shapeOK ρ sh v ∧ ∀ r ∈ xss, ∀ x ∈ r, inRandint (lo.scI ρ) (hi.scI ρ) x
  | .uniform sh lo hi, .r0 x => shapeOK ρ sh v ∧ inUniform (lo.scQ ρ) (hi.scQ ρ) x
  | .uniform sh (.all lo) (.all hi), .r1 xs => shapeOK ρ sh v ∧ ∀ x ∈ xs, inUniform (lo.evalQ ρ) (hi.evalQ ρ) x
  | .uniform sh lo hi, .r1 xs => shapeOK ρ sh v ∧ ∀ k, (h : k < xs.length) → inUniform (lo.atQ ρ k) (hi.atQ ρ k) xs[k]
  | .uniform sh lo hi, .r2 xss => shapeOK ρ sh v ∧ ∀ r ∈ xss, ∀ x ∈ r, inUniform (lo.scQ ρ) (hi.scQ ρ) x
  | .bernoulli sh p, v =>
    shapeOK ρ sh v ∧
    match v.ints with
    | some xs => (∀ x ∈ xs, x = 0 ∨ x = 1) ∧
        (match p.evalQ ρ with
         | some q => (q ≤ 0 → ∀ x ∈ xs, x = 0) ∧ (1 ≤ q → ∀ x ∈ xs, x = 1)
         | none => True)
    | none => True
  | .choice pop sh true wt, v =>
    shapeOK ρ sh v ∧
    match v.ints with
    | some xs => ∀ x ∈ xs, pickOK ρ (wt.okAt ρ) pop x
    | none => True
  | .choice pop sh false wt, v =>
    shapeOK ρ sh v ∧
    match v.ints with
    | some xs => (∀ x ∈ xs, pickOK ρ (wt.okAtNR ρ xs.length) pop x) ∧ (pop.nodup ρ → xs.Nodup)
    | none => True
  | .permutation pop, .i1 xs =>
    match pop.elems ρ with
    | some ys => xs.Perm ys
    | none => True
  | .categorical sh _, v => shapeOK ρ sh v
  | _, _ => True

instance (d : Draw) (ρ : Env) (v : Val) : Decidable (inSupportE d ρ v) := by
  unfold inSupportE
  split
  all_goals first
    | infer_instance
    | (split <;> first | infer_instance | (split <;> infer_instance))
    | (refine @instDecidableAnd _ _ _ ?_; split <;> first | infer_instance | (refine @instDecidableAnd _ _ _ ?_; split <;> infer_instance))

/-- the support when every name is integer-valued -/
def inSupport (d : Draw) (ρ : String → Int) (v : Val) : Prop := inSupportE d (Env.ofInt ρ) v

instance (d : Draw) (ρ : String → Int) (v : Val) : Decidable (inSupport d ρ v) := by unfold inSupport; infer_instance

/-- lookup in the generated table -/
def find (tbl : List (String × Draw)) (key : String) : Draw :=
  match tbl.find? (fun e => e.1 == key) with
  | some e => e.2
  | none => .missing key

end DrawRange
