/-
Time limits (C11).  (1) A tiny Python-expression language with Python's truthiness for the
constructor's `self.time_limit = <expr>`, (2) the comparison used in `done`, both recovered from the
source by `harness/translators.py` (gen_timelimit).  Import-free.
-/
namespace TL

/-- Python values that occur: `None` or an int -/
inductive PyVal | none | int (n : Nat)
  deriving DecidableEq, Repr

def PyVal.truthy : PyVal → Bool | .none => false | .int n => n != 0

inductive PyExpr
  | arg                      -- the constructor argument `time_limit`
  | const (n : Nat)
  | noneLit
  | attr (name : String)     -- `self.<name>` (an int attribute such as num_rows)
  | or (a b : PyExpr)        -- Python `a or b`
  | mul (a b : PyExpr)
  | unrecognised
  deriving DecidableEq, Repr

def PyExpr.eval (attrs : String → Nat) (arg : PyVal) : PyExpr → Option PyVal
  | .arg => some arg
  | .const n => some (.int n)
  | .noneLit => some .none
  | .attr s => some (.int (attrs s))
  | .or a b => match a.eval attrs arg with
    | some v => if v.truthy then some v else b.eval attrs arg
    | none => none
  | .mul a b => match a.eval attrs arg, b.eval attrs arg with
    | some (.int x), some (.int y) => some (.int (x * y))
    | _, _ => none
  | .unrecognised => none

/-- syntactic shapes for which the argument is honoured: `time_limit` or `time_limit or <default>` -/
def PyExpr.honours : PyExpr → Bool
  | .arg => true
  | .or .arg _ => true
  | _ => false

inductive Cmp | ge | gt | eq | other
  deriving DecidableEq, Repr

structure Entry where
  cls : String
  wiring : PyExpr
  doneCmp : List Cmp      -- every comparison of a step count with `self.time_limit` found in the class
  deriving DecidableEq, Repr

def Entry.ok (e : Entry) : Bool := e.wiring.honours && !e.doneCmp.isEmpty && e.doneCmp.all (· == .ge)

/-! The counting argument (episodes of a step system that increments a counter and compares it with the limit)
is in `Core/Episode.lean` / `Core/EpisodeLemmas.lean`; it consumes the `Cmp` recorded here. -/

end TL
