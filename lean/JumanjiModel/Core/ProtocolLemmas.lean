import JumanjiModel.Core.Protocol
namespace Proto
open Jm
variable {O : Type}

theorem allIn01_ones (n : Nat) : allIn01 (List.replicate n (1 : Rat)) = true := by
  simp [allIn01, List.all_replicate]; right; decide +kernel
theorem allIn01_zeros (n : Nat) : allIn01 (List.replicate n (0 : Rat)) = true := by
  simp [allIn01, List.all_replicate]; right; decide +kernel
theorem allZero_zeros (n : Nat) : allZero (List.replicate n (0 : Rat)) = true := by
  simp [allZero, List.all_replicate]
theorem allZero_ones (n : Nat) (h : 0 < n) : allZero (List.replicate n (1 : Rat)) = false := by
  cases n with
  | zero => omega
  | succ n =>
    simp only [allZero, List.replicate_succ, List.all_cons]
    have : decide ((1 : Rat) = 0) = false := by decide +kernel
    simp [this]

/-- `restart` gives FIRST, zero reward, unit discount of the declared shape -/
theorem restart_ok (o : O) (sh : RShape) : ResetOK sh (restart o sh) = true := by
  simp [ResetOK, restart]

/-- the protocol theorem for the `lax.cond(done, termination, transition)` shape, with an optional
explicit discount on the MID branch (Connector) -/
theorem cond_ok (t f : Branch) (sh : RShape) (hsz : 0 < sh.size) (multi : Bool)
    (hm : multi = true ↔ sh ≠ none)
    (ht : t.ctor = .termination) (hf : f.ctor = .transition) (hts : t.hasShape = multi) (hfs : f.hasShape = multi)
    (htd : t.hasDiscount = false)
    (done : Bool) (r : List Rat) (o : O) (disc : List Rat) (hr : r.length = sh.size)
    (hd : f.hasDiscount = true → disc.length = sh.size ∧ allIn01 disc = true ∧ (done = false → allZero disc = false)) :
    StepOK sh false (if done then evalBranch t sh r o disc else evalBranch f sh r o disc) = true := by
  have hshape : ∀ b : Bool, b = multi → (if b then sh else none) = sh := by
    intro b hb
    cases b
    · cases sh with
      | none => rfl
      | some n => exfalso; rw [← hb] at hm; exact absurd (hm.2 (by simp)) (by simp)
    · rfl
  cases done
  · -- MID
    simp only [Bool.false_eq_true, if_false, evalBranch, hf, hshape _ hfs]
    cases hfd : f.hasDiscount
    · simp [StepOK, transition, hr, onesR, allIn01_ones, allZero_ones _ hsz]
    · obtain ⟨h1, h2, h3⟩ := hd hfd
      simp [StepOK, transition, hr, h1, h2, h3 rfl]
  · -- LAST
    simp only [if_true, evalBranch, ht, hshape _ hts]
    simp [StepOK, termination, hr, zerosR, allIn01_zeros, allZero_zeros]

/-- LBF's switch: LAST with non-zero discount happens exactly on truncation without termination -/
theorem switch4_ok (b0 b1 b2 b3 : Branch) (sh : RShape) (hsz : 0 < sh.size) (multi : Bool)
    (hm : multi = true ↔ sh ≠ none)
    (h0 : b0.ctor = .transition) (h1 : b1.ctor = .termination) (h2 : b2.ctor = .truncation) (h3 : b3.ctor = .termination)
    (s0 : b0.hasShape = multi) (s1 : b1.hasShape = multi) (s2 : b2.hasShape = multi) (s3 : b3.hasShape = multi)
    (d0 : b0.hasDiscount = false) (d2 : b2.hasDiscount = false)
    (terminate truncate : Bool) (r : List Rat) (o : O) (disc : List Rat) (hr : r.length = sh.size) :
    ∀ ts, evalStep (.switch4 b0 b1 b2 b3) sh terminate truncate r o disc = some ts →
      StepOK sh true ts = true ∧
      (ts.stepType = .last ↔ (terminate = true ∨ truncate = true)) ∧
      ((ts.stepType = .last ∧ allZero ts.discount = false) ↔ (truncate = true ∧ terminate = false)) := by
  have hshape : ∀ b : Bool, b = multi → (if b then sh else none) = sh := by
    intro b hb
    cases b
    · cases sh with
      | none => rfl
      | some n => exfalso; rw [← hb] at hm; exact absurd (hm.2 (by simp)) (by simp)
    · rfl
  intro ts hts
  simp only [evalStep, Option.some.injEq] at hts
  subst hts
  cases terminate <;> cases truncate <;>
    simp [evalBranch, h0, h1, h2, h3, hshape _ s0, hshape _ s1, hshape _ s2, hshape _ s3, d0, d2, StepOK,
      transition, termination, truncation, hr, onesR, zerosR, allIn01_ones, allIn01_zeros, allZero_ones _ hsz,
      allZero_zeros]

end Proto
