import JumanjiModel.Core.Protocol
namespace Proto
open Jm
variable {O : Type}

theorem allIn01_ones (n : Nat) : allIn01 (List.replicate n (1 : Rat)) = true := by
  simp [allIn01, List.all_replicate]; right; decide +kernel
theorem allIn01_zeros (n : Nat) : allIn01 (List.replicate n (0 : Rat)) = true := by
  simp [allIn01, List.all_replicate]; right; decide +kernel
theorem allZero_zeros (n : Nat) : allZero (List.replicate n (0 : Rat)) = true := by
  simp [allZero, List.all_replicate]
theorem allZero_ones (n : Nat) (h : 0 < n) : allZero (List.replicate n (1 : Rat)) = false := by
  cases n with
  | zero => omega
  | succ n =>
    simp only [allZero, List.replicate_succ, List.all_cons]
    have : decide ((1 : Rat) = 0) = false := by decide +kernel
    simp [this]

/-- `restart` gives FIRST, zero reward, unit discount of the declared shape -/
theorem restart_ok (o : O) (sh : RShape) : ResetOK sh (restart o sh) = true := by
  simp [ResetOK, restart]

/-- `StepOK` = the reward has the declared length (the environment's obligation: every constructor passes the
reward through) + `DiscOK` (what the constructors build) -/
theorem stepOK_iff (sh : RShape) (truncOK : Bool) (ts : TimeStep O) :
    StepOK sh truncOK ts = true ↔ (ts.reward.length = sh.size ∧ DiscOK sh truncOK ts = true) := by
  simp only [StepOK, DiscOK, Bool.and_eq_true, beq_iff_eq]
  constructor
  · rintro ⟨⟨⟨⟨⟨a, b⟩, c⟩, d⟩, e⟩, f⟩; exact ⟨b, ⟨⟨⟨⟨a, c⟩, d⟩, e⟩, f⟩⟩
  · rintro ⟨b, ⟨⟨⟨⟨a, c⟩, d⟩, e⟩, f⟩⟩; exact ⟨⟨⟨⟨⟨a, b⟩, c⟩, d⟩, e⟩, f⟩

/-! ### what the constructors do with `shape` (jumanji/types.py): no hypothesis on the reward -/

/-- `restart`: reward AND discount are built from `shape` -/
theorem restart_shape (o : O) (sh : RShape) :
    (restart o sh).reward.length = sh.size ∧ (restart o sh).discount.length = sh.size := by
  simp [restart, zerosR, onesR]
/-- `termination`: reward passed through, discount = zeros(shape) -/
theorem termination_shape (r : List Rat) (o : O) (sh : RShape) :
    (termination r o sh).reward = r ∧ (termination r o sh).discount = zerosR sh ∧
    (termination r o sh).discount.length = sh.size := by
  simp [termination, zerosR]
/-- `transition` / `truncation` without `discount=`: reward passed through, discount = ones(shape) -/
theorem transition_shape (r : List Rat) (o : O) (sh : RShape) :
    (transition r o none sh).reward = r ∧ (transition r o none sh).discount = onesR sh ∧
    (transition r o none sh).discount.length = sh.size := by
  simp [transition, onesR]
theorem truncation_shape (r : List Rat) (o : O) (sh : RShape) :
    (truncation r o none sh).reward = r ∧ (truncation r o none sh).discount = onesR sh ∧
    (truncation r o none sh).discount.length = sh.size := by
  simp [truncation, onesR]
/-- with `discount=`: both are passed through, `shape` is ignored -/
theorem transition_explicit (r : List Rat) (o : O) (d : List Rat) (sh : RShape) :
    (transition r o (some d) sh).reward = r ∧ (transition r o (some d) sh).discount = d := by
  simp [transition]
theorem truncation_explicit (r : List Rat) (o : O) (d : List Rat) (sh : RShape) :
    (truncation r o (some d) sh).reward = r ∧ (truncation r o (some d) sh).discount = d := by
  simp [truncation]

/-- every branch of every step expression passes the reward through unchanged -/
theorem evalBranch_reward (b : Branch) (sh : RShape) (r : List Rat) (o : O) (disc : List Rat) :
    (evalBranch b sh r o disc).reward = r := by
  unfold evalBranch; cases b.ctor <;> rfl
theorem evalStep_reward (s : Shape) (sh : RShape) (terminate truncate : Bool) (r : List Rat) (o : O)
    (disc : List Rat) (ts : TimeStep O) (h : evalStep s sh terminate truncate r o disc = some ts) :
    ts.reward = r := by
  cases s with
  | unrecognised => simp [evalStep] at h
  | cond t f =>
    simp only [evalStep, Option.some.injEq] at h
    subst h
    cases terminate <;> simp [evalBranch_reward]
  | switch4 b0 b1 b2 b3 =>
    simp only [evalStep, Option.some.injEq] at h
    subst h
    cases terminate <;> cases truncate <;> simp [evalBranch_reward]

/-- the protocol theorem for the `lax.cond(done, termination, transition)` shape, with an optional
explicit discount on the MID branch (Connector).  NO hypothesis on the reward. -/
theorem cond_disc_ok (t f : Branch) (sh : RShape) (hsz : 0 < sh.size) (multi : Bool)
    (hm : multi = true ↔ sh ≠ none)
    (ht : t.ctor = .termination) (hf : f.ctor = .transition) (hts : t.hasShape = multi) (hfs : f.hasShape = multi)
    (htd : t.hasDiscount = false)
    (done : Bool) (r : List Rat) (o : O) (disc : List Rat)
    (hd : f.hasDiscount = true → disc.length = sh.size ∧ allIn01 disc = true ∧ (done = false → allZero disc = false)) :
    DiscOK sh false (if done then evalBranch t sh r o disc else evalBranch f sh r o disc) = true := by
  have hshape : ∀ b : Bool, b = multi → (if b then sh else none) = sh := by
    intro b hb
    cases b
    · cases sh with
      | none => rfl
      | some n => exfalso; rw [← hb] at hm; exact absurd (hm.2 (by simp)) (by simp)
    · rfl
  cases done
  · -- MID
    simp only [Bool.false_eq_true, if_false, evalBranch, hf, hshape _ hfs]
    cases hfd : f.hasDiscount
    · simp [DiscOK, transition, onesR, allIn01_ones, allZero_ones _ hsz]
    · obtain ⟨h1, h2, h3⟩ := hd hfd
      simp [DiscOK, transition, h1, h2, h3 rfl]
  · -- LAST
    simp only [if_true, evalBranch, ht, hshape _ hts]
    simp [DiscOK, termination, zerosR, allIn01_zeros, allZero_zeros]

/-- … and with a reward of the declared length, the full predicate -/
theorem cond_ok (t f : Branch) (sh : RShape) (hsz : 0 < sh.size) (multi : Bool)
    (hm : multi = true ↔ sh ≠ none)
    (ht : t.ctor = .termination) (hf : f.ctor = .transition) (hts : t.hasShape = multi) (hfs : f.hasShape = multi)
    (htd : t.hasDiscount = false)
    (done : Bool) (r : List Rat) (o : O) (disc : List Rat) (hr : r.length = sh.size)
    (hd : f.hasDiscount = true → disc.length = sh.size ∧ allIn01 disc = true ∧ (done = false → allZero disc = false)) :
    StepOK sh false (if done then evalBranch t sh r o disc else evalBranch f sh r o disc) = true := by
  rw [stepOK_iff]
  refine ⟨?_, cond_disc_ok t f sh hsz multi hm ht hf hts hfs htd done r o disc hd⟩
  cases done <;> simp [evalBranch_reward, hr]

/-- LBF's switch: LAST with non-zero discount happens exactly on truncation without termination.
NO hypothesis on the reward. -/
theorem switch4_disc_ok (b0 b1 b2 b3 : Branch) (sh : RShape) (hsz : 0 < sh.size) (multi : Bool)
    (hm : multi = true ↔ sh ≠ none)
    (h0 : b0.ctor = .transition) (h1 : b1.ctor = .termination) (h2 : b2.ctor = .truncation) (h3 : b3.ctor = .termination)
    (s0 : b0.hasShape = multi) (s1 : b1.hasShape = multi) (s2 : b2.hasShape = multi) (s3 : b3.hasShape = multi)
    (d0 : b0.hasDiscount = false) (d2 : b2.hasDiscount = false)
    (terminate truncate : Bool) (r : List Rat) (o : O) (disc : List Rat) :
    ∀ ts, evalStep (.switch4 b0 b1 b2 b3) sh terminate truncate r o disc = some ts →
      DiscOK sh true ts = true ∧
      (ts.stepType = .last ↔ (terminate = true ∨ truncate = true)) ∧
      ((ts.stepType = .last ∧ allZero ts.discount = false) ↔ (truncate = true ∧ terminate = false)) := by
  have hshape : ∀ b : Bool, b = multi → (if b then sh else none) = sh := by
    intro b hb
    cases b
    · cases sh with
      | none => rfl
      | some n => exfalso; rw [← hb] at hm; exact absurd (hm.2 (by simp)) (by simp)
    · rfl
  intro ts hts
  simp only [evalStep, Option.some.injEq] at hts
  subst hts
  cases terminate <;> cases truncate <;>
    simp [evalBranch, h0, h1, h2, h3, hshape _ s0, hshape _ s1, hshape _ s2, hshape _ s3, d0, d2, DiscOK,
      transition, termination, truncation, onesR, zerosR, allIn01_ones, allIn01_zeros, allZero_ones _ hsz,
      allZero_zeros]

theorem switch4_ok (b0 b1 b2 b3 : Branch) (sh : RShape) (hsz : 0 < sh.size) (multi : Bool)
    (hm : multi = true ↔ sh ≠ none)
    (h0 : b0.ctor = .transition) (h1 : b1.ctor = .termination) (h2 : b2.ctor = .truncation) (h3 : b3.ctor = .termination)
    (s0 : b0.hasShape = multi) (s1 : b1.hasShape = multi) (s2 : b2.hasShape = multi) (s3 : b3.hasShape = multi)
    (d0 : b0.hasDiscount = false) (d2 : b2.hasDiscount = false)
    (terminate truncate : Bool) (r : List Rat) (o : O) (disc : List Rat) (hr : r.length = sh.size) :
    ∀ ts, evalStep (.switch4 b0 b1 b2 b3) sh terminate truncate r o disc = some ts →
      StepOK sh true ts = true ∧
      (ts.stepType = .last ↔ (terminate = true ∨ truncate = true)) ∧
      ((ts.stepType = .last ∧ allZero ts.discount = false) ↔ (truncate = true ∧ terminate = false)) := by
  intro ts hts
  obtain ⟨a, b⟩ := switch4_disc_ok b0 b1 b2 b3 sh hsz multi hm h0 h1 h2 h3 s0 s1 s2 s3 d0 d2 terminate truncate r o disc ts hts
  refine ⟨(stepOK_iff _ _ _).2 ⟨?_, a⟩, b⟩
  rw [evalStep_reward _ _ _ _ _ _ _ _ hts]; exact hr

end Proto
