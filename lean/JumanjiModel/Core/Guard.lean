/-
Constructor argument checks (`if <cond>: raise ValueError(...)` / `assert <cond>` at the top level of `__init__`) as a small
expression language over integer-valued constructor arguments.  `Gen/Guards.lean` is GENERATED from the source of every
environment and generator class on every run (harness/translators.py, gen_guards); the theorems of `Props/Guards.lean` turn
"the constructor returned" into the well-formedness hypotheses the environment theorems take.  Import-free.
-/
namespace Guard

inductive E
  | attr (n : String) | const (i : Int) | add (a b : E) | sub (a b : E) | mul (a b : E) | mod (a b : E) | pow (a : E) (k : Nat)
  | unknown (src : String)
  deriving Repr, DecidableEq

/-- a condition under which the constructor RAISES -/
inductive C
  | lt (a b : E) | le (a b : E) | eq (a b : E) | ne (a b : E)
  | and (a b : C) | or (a b : C) | not (a : C)
  | unknown (src : String)
  deriving Repr, DecidableEq

/-- `none`: the expression was not recognised by the translator (no information) -/
def E.eval (ρ : String → Int) : E → Option Int
  | .attr n => some (ρ n)
  | .const i => some i
  | .add a b => do let x ← a.eval ρ; let y ← b.eval ρ; pure (x + y)
  | .sub a b => do let x ← a.eval ρ; let y ← b.eval ρ; pure (x - y)
  | .mul a b => do let x ← a.eval ρ; let y ← b.eval ρ; pure (x * y)
  -- Python `%` with a positive divisor is the Euclidean remainder; other divisors are not used by any guard (no information)
  | .mod a b => do let x ← a.eval ρ; let y ← b.eval ρ; if 0 < y then pure (x % y) else none
  | .pow a k => do let x ← a.eval ρ; pure (x ^ k)
  | .unknown _ => none

def C.eval (ρ : String → Int) : C → Option Bool
  | .lt a b => do let x ← a.eval ρ; let y ← b.eval ρ; pure (decide (x < y))
  | .le a b => do let x ← a.eval ρ; let y ← b.eval ρ; pure (decide (x ≤ y))
  | .eq a b => do let x ← a.eval ρ; let y ← b.eval ρ; pure (decide (x = y))
  | .ne a b => do let x ← a.eval ρ; let y ← b.eval ρ; pure (decide (x ≠ y))
  | .and a b => do let x ← a.eval ρ; let y ← b.eval ρ; pure (x && y)
  | .or a b => do let x ← a.eval ρ; let y ← b.eval ρ; pure (x || y)
  | .not a => do let x ← a.eval ρ; pure (!x)
  | .unknown _ => none

/-- the constructor returns: no check is KNOWN to fire.  An unrecognised check gives no information — a theorem that needs what
it would have guaranteed can then not be proved, which is the intended alarm. -/
def accepts (gs : List C) (ρ : String → Int) : Bool := gs.all (fun g => g.eval ρ != some true)

/-- lookup in the generated table -/
def find (tbl : List (String × List C)) (cls : String) : List C :=
  match tbl.find? (fun e => e.1 == cls) with
  | some e => e.2
  | none => [.unknown ("no class " ++ cls)]   -- forces `accepts` to be uninformative AND distinguishable from a class without checks

end Guard
