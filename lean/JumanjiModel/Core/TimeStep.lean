/-
`jumanji/types.py`: StepType, TimeStep and the four constructors, plus the combinators with
which the environments end `step`.  Import-free.

Reward and discount are lists of rationals: a scalar (shape `()`) is a list of length 1, a
multi-agent value of shape `(n,)` a list of length `n`.
-/
namespace Jm

inductive StepType | first | mid | last
  deriving DecidableEq, Repr, Inhabited

def StepType.toNat : StepType → Nat | .first => 0 | .mid => 1 | .last => 2

/-- shape of reward/discount: `none` = `()`, `some n` = `(n,)` -/
abbrev RShape := Option Nat
def RShape.size : RShape → Nat | none => 1 | some n => n

def zerosR (sh : RShape) : List Rat := List.replicate sh.size 0
def onesR (sh : RShape) : List Rat := List.replicate sh.size 1

structure TimeStep (O : Type) where
  stepType : StepType
  reward : List Rat
  discount : List Rat
  obs : O
  deriving Repr

variable {O : Type}

def restart (o : O) (sh : RShape := none) : TimeStep O :=
  { stepType := .first, reward := zerosR sh, discount := onesR sh, obs := o }

/-- `transition(reward, obs, discount=None, shape=sh)` -/
def transition (r : List Rat) (o : O) (disc : Option (List Rat) := none) (sh : RShape := none) :
    TimeStep O :=
  { stepType := .mid, reward := r, discount := disc.getD (onesR sh), obs := o }

/-- `termination(reward, obs, shape=sh)` -/
def termination (r : List Rat) (o : O) (sh : RShape := none) : TimeStep O :=
  { stepType := .last, reward := r, discount := zerosR sh, obs := o }

/-- `truncation(reward, obs, discount=None, shape=sh)` -/
def truncation (r : List Rat) (o : O) (disc : Option (List Rat) := none) (sh : RShape := none) :
    TimeStep O :=
  { stepType := .last, reward := r, discount := disc.getD (onesR sh), obs := o }

/-- the combinator that ends `step` in most environments:
`lax.cond(done, termination, transition, reward, obs)` (both with the same `shape`). -/
def condLast (done : Bool) (r : List Rat) (o : O) (sh : RShape := none) : TimeStep O :=
  if done then termination r o sh else transition r o none sh

/-- Connector: `lax.cond(done, termination, transition(discount=disc))` with an explicit discount
vector on the MID branch. -/
def condLastDiscount (done : Bool) (r : List Rat) (o : O) (disc : List Rat) (sh : RShape) :
    TimeStep O :=
  if done then termination r o sh else transition r o (some disc) sh

/-- LBF / RobotWarehouse / MMST style three-way switch:
`terminate → termination`, else `truncate → truncation`, else `transition`. -/
def switch3 (terminate truncate : Bool) (r : List Rat) (o : O) (sh : RShape) : TimeStep O :=
  if terminate then termination r o sh
  else if truncate then truncation r o none sh
  else transition r o none sh

/-! ### The protocol predicate of property C03 (decidable, run by the driver on implementation
timesteps too). -/

def allIn01 (d : List Rat) : Bool := d.all (fun x => decide (0 ≤ x) && decide (x ≤ 1))
def allZero (d : List Rat) : Bool := d.all (fun x => decide (x = 0))
def allOne (d : List Rat) : Bool := d.all (fun x => decide (x = 1))

/-- A `step` output is protocol-conform: never FIRST; discount in [0,1] and of the right shape;
MID never has an all-zero discount; LAST has zero discount unless `truncOK` (documented
truncation). -/
def StepOK (sh : RShape) (truncOK : Bool) (ts : TimeStep O) : Bool :=
  ts.stepType != .first &&
  ts.reward.length == sh.size && ts.discount.length == sh.size &&
  allIn01 ts.discount &&
  (ts.stepType != .mid || !(allZero ts.discount)) &&
  (ts.stepType != .last || truncOK || allZero ts.discount)

def ResetOK (sh : RShape) (ts : TimeStep O) : Bool :=
  ts.stepType == .first && ts.reward == zerosR sh && ts.discount == onesR sh

end Jm
