/-
The generic episode-level time-limit theorems (C11, C01) over an abstract step system
(`Core/Episode.lean`), by induction over action lists.  Instantiated for the L1 environment models in
`Props/EpisodeInstances.lean`.
-/
import JumanjiModel.Core.Episode
namespace Ep
open Jm
variable {S A O : Type}

/-! ### shifting along the action list -/

@[simp] theorem stateAt_zero (M : Sys S A) (s : S) (as : List A) : M.stateAt s as 0 = s := by
  simp [Sys.stateAt, Sys.run]

@[simp] theorem stateAt_cons_succ (M : Sys S A) (s : S) (a : A) (as : List A) (j : Nat) :
    M.stateAt s (a :: as) (j + 1) = M.stateAt (M.step s a) as j := by
  simp [Sys.stateAt, Sys.run]

@[simp] theorem lastAt_zero (M : Sys S A) (s : S) (as : List A) : M.lastAt s as 0 = false := rfl

@[simp] theorem lastAt_nil (M : Sys S A) (s : S) (j : Nat) : M.lastAt s [] j = false := by
  cases j <;> simp [Sys.lastAt]

@[simp] theorem lastAt_cons_one (M : Sys S A) (s : S) (a : A) (as : List A) :
    M.lastAt s (a :: as) 1 = M.last s a := by
  simp [Sys.lastAt]

@[simp] theorem lastAt_cons_succ_succ (M : Sys S A) (s : S) (a : A) (as : List A) (j : Nat) :
    M.lastAt s (a :: as) (j + 2) = M.lastAt (M.step s a) as (j + 1) := by
  simp [Sys.lastAt]

/-- the state after `j+1` actions is the `step` of the state after `j` actions -/
theorem stateAt_succ (M : Sys S A) (s : S) (as : List A) (j : Nat) (a : A) (h : as[j]? = some a) :
    M.stateAt s as (j + 1) = M.step (M.stateAt s as j) a := by
  induction as generalizing s j with
  | nil => simp at h
  | cons b bs ih =>
    cases j with
    | zero => simp at h; subst h; simp
    | succ j => simp at h; simp [ih _ j h]

theorem lastAt_succ (M : Sys S A) (s : S) (as : List A) (j : Nat) (a : A) (h : as[j]? = some a) :
    M.lastAt s as (j + 1) = M.last (M.stateAt s as j) a := by
  simp [Sys.lastAt, h]

theorem lastAt_le_length (M : Sys S A) (s : S) (as : List A) (j : Nat) (h : M.lastAt s as j = true) :
    0 < j ∧ j ≤ as.length := by
  cases j with
  | zero => simp at h
  | succ j =>
    simp only [Sys.lastAt] at h
    cases hj : as[j]? with
    | none => simp [hj] at h
    | some a =>
      have := (List.getElem?_eq_some_iff.1 hj).1
      omega

/-! ### `firstLast` is the first step that emits LAST -/

/-- `firstLast s as = some k` iff step `k` (1-based) emits LAST and no earlier step does -/
theorem firstLast_spec (M : Sys S A) (s : S) (as : List A) (k : Nat) :
    M.firstLast s as = some k ↔
      (0 < k ∧ M.lastAt s as k = true ∧ ∀ j, 0 < j → j < k → M.lastAt s as j = false) := by
  induction as generalizing s k with
  | nil => simp [Sys.firstLast]
  | cons a as ih =>
    unfold Sys.firstLast
    by_cases hl : M.last s a = true
    · rw [if_pos hl]
      constructor
      · intro h
        have hk : k = 1 := by simpa using h.symm
        subst hk
        exact ⟨by omega, by simpa using hl, fun j h1 h2 => by omega⟩
      · rintro ⟨h0, _, h3⟩
        by_cases hk : k = 1
        · simp [hk]
        · have := h3 1 (by omega) (by omega)
          simp [hl] at this
    · rw [if_neg hl]
      have hl' : M.last s a = false := by simpa using hl
      constructor
      · intro h
        simp only [Option.map_eq_some_iff] at h
        obtain ⟨k', hk', rfl⟩ := h
        obtain ⟨h0, h1, h2⟩ := (ih _ _).1 hk'
        obtain ⟨k'', rfl⟩ : ∃ k'', k' = k'' + 1 := ⟨k' - 1, by omega⟩
        refine ⟨by omega, by simpa using h1, ?_⟩
        intro j hj0 hjk
        obtain ⟨j', rfl⟩ : ∃ j', j = j' + 1 := ⟨j - 1, by omega⟩
        cases j' with
        | zero => simpa using hl'
        | succ j' =>
          rw [lastAt_cons_succ_succ]
          exact h2 (j' + 1) (by omega) (by omega)
      · rintro ⟨h0, h1, h2⟩
        obtain ⟨k', rfl⟩ : ∃ k', k = k' + 1 := ⟨k - 1, by omega⟩
        cases k' with
        | zero => simp [hl'] at h1
        | succ k' =>
          rw [lastAt_cons_succ_succ] at h1
          have : M.firstLast (M.step s a) as = some (k' + 1) := by
            refine (ih _ _).2 ⟨by omega, h1, ?_⟩
            intro j hj0 hjk
            obtain ⟨j', rfl⟩ : ∃ j', j = j' + 1 := ⟨j - 1, by omega⟩
            have := h2 (j' + 2) (by omega) (by omega)
            simpa using this
          simp [this]

/-- if some step emits LAST, there is a first one, and it is not later -/
theorem firstLast_of_lastAt (M : Sys S A) (s : S) (as : List A) (n : Nat) (h : M.lastAt s as n = true) :
    ∃ k, M.firstLast s as = some k ∧ 0 < k ∧ k ≤ n := by
  induction as generalizing s n with
  | nil => simp at h
  | cons a as ih =>
    unfold Sys.firstLast
    by_cases hl : M.last s a = true
    · rw [if_pos hl]
      have := (lastAt_le_length M s (a :: as) n h).1
      exact ⟨1, rfl, by omega, by omega⟩
    · rw [if_neg hl]
      obtain ⟨n', rfl⟩ : ∃ n', n = n' + 1 := ⟨n - 1, by have := (lastAt_le_length M s (a :: as) n h).1; omega⟩
      cases n' with
      | zero => simp at h; exact absurd h hl
      | succ n' =>
        rw [lastAt_cons_succ_succ] at h
        obtain ⟨k, hk, h0, hle⟩ := ih _ _ h
        exact ⟨k + 1, by simp [hk], by omega, by omega⟩

/-- no step emits LAST iff `firstLast` is `none` -/
theorem firstLast_none (M : Sys S A) (s : S) (as : List A) :
    M.firstLast s as = none ↔ ∀ j, M.lastAt s as j = false := by
  constructor
  · intro h j
    cases hj : M.lastAt s as j with
    | false => rfl
    | true =>
      obtain ⟨k, hk, _⟩ := firstLast_of_lastAt M s as j hj
      rw [h] at hk; cases hk
  · intro h
    cases hk : M.firstLast s as with
    | none => rfl
    | some k =>
      have := ((firstLast_spec M s as k).1 hk).2.1
      rw [h k] at this; cases this

/-! ### the comparison operators -/

theorem cmpHolds_horizon (cmp : TL.Cmp) (hc : cmp ≠ .other) (T : Int) :
    cmpHolds cmp (cmpHorizon cmp T) T = true := by
  cases cmp <;> simp [cmpHolds, cmpHorizon] at * <;> omega

theorem cmpHolds_before (cmp : TL.Cmp) (T c : Int) (h : c < cmpHorizon cmp T) : cmpHolds cmp c T = false := by
  cases cmp <;> simp [cmpHolds, cmpHorizon] at * <;> omega

@[simp] theorem cmpHolds_ge (c T : Int) : (cmpHolds .ge c T = true) ↔ T ≤ c := by simp [cmpHolds]
@[simp] theorem cmpHorizon_ge (T : Int) : cmpHorizon .ge T = T := rfl
@[simp] theorem cmpHorizon_gt (T : Int) : cmpHorizon .gt T = T + 1 := rfl

theorem Exact.toLimited {M : Sys S A} {Inv : S → Prop} {other : S → A → Prop} {cmp : TL.Cmp} {T : Int}
    (h : Exact M Inv other cmp T) : Limited M Inv cmp T :=
  ⟨h.inv_step, h.count_step, fun s a hi hc => (h.last_iff s a hi).2 (Or.inr hc)⟩

/-! ### counting along the episode -/

/-- the invariant holds and the counter equals its start value plus the number of steps taken, at every
state along ANY action list (also after LAST) -/
theorem count_stateAt {M : Sys S A} {Inv : S → Prop} {cmp : TL.Cmp} {T : Int} (h : Limited M Inv cmp T)
    (s : S) (hi : Inv s) (as : List A) (j : Nat) (hj : j ≤ as.length) :
    Inv (M.stateAt s as j) ∧ M.count (M.stateAt s as j) = M.count s + j := by
  induction j with
  | zero => simp [hi]
  | succ j ih =>
    obtain ⟨ih1, ih2⟩ := ih (by omega)
    have hlt : j < as.length := by omega
    have hget : as[j]? = some as[j] := List.getElem?_eq_getElem hlt
    rw [stateAt_succ M s as j _ hget]
    refine ⟨h.inv_step _ _ ih1, ?_⟩
    rw [h.count_step _ _ ih1, ih2]
    omega

/-- NEVER LATER.  From a start state with counter 0, along any action list that is at least as long as
the horizon `H` (= `T` for `>=` and `==`, `T + 1` for `>`), step number `H` emits LAST … -/
theorem lastAt_horizon {M : Sys S A} {Inv : S → Prop} {cmp : TL.Cmp} {T : Int} (h : Limited M Inv cmp T)
    (hc : cmp ≠ .other) (hT : 0 < T) (s : S) (hi : Inv s) (h0 : M.count s = 0) (as : List A)
    (hlen : cmpHorizon cmp T ≤ as.length) :
    M.lastAt s as (cmpHorizon cmp T).toNat = true := by
  have hH : 0 < cmpHorizon cmp T := by cases cmp <;> simp [cmpHorizon] <;> omega
  obtain ⟨n, hn⟩ : ∃ n : Nat, (cmpHorizon cmp T).toNat = n + 1 := ⟨(cmpHorizon cmp T).toNat - 1, by omega⟩
  rw [hn]
  have hlt : n < as.length := by omega
  have hget : as[n]? = some as[n] := List.getElem?_eq_getElem hlt
  rw [lastAt_succ M s as n _ hget]
  obtain ⟨hin, hcn⟩ := count_stateAt h s hi as n (by omega)
  apply h.limit_last _ _ hin
  have : M.count (M.stateAt s as n) + 1 = cmpHorizon cmp T := by rw [hcn, h0]; omega
  rw [this]
  exact cmpHolds_horizon cmp hc T

/-- … hence there is a first LAST step `k` with `0 < k ≤ H`, every earlier step is not LAST -/
theorem ends_by_horizon {M : Sys S A} {Inv : S → Prop} {cmp : TL.Cmp} {T : Int} (h : Limited M Inv cmp T)
    (hc : cmp ≠ .other) (hT : 0 < T) (s : S) (hi : Inv s) (h0 : M.count s = 0) (as : List A)
    (hlen : cmpHorizon cmp T ≤ as.length) :
    ∃ k, M.firstLast s as = some k ∧ 0 < k ∧ (k : Int) ≤ cmpHorizon cmp T ∧
      M.lastAt s as k = true ∧ ∀ j, 0 < j → j < k → M.lastAt s as j = false := by
  obtain ⟨k, hk, hk0, hkle⟩ := firstLast_of_lastAt M s as _ (lastAt_horizon h hc hT s hi h0 as hlen)
  obtain ⟨_, h2, h3⟩ := (firstLast_spec M s as k).1 hk
  exact ⟨k, hk, hk0, by omega, h2, h3⟩

/-- NEVER EARLIER.  If no other cause holds at any step before the horizon, the first LAST step is step
number `H` exactly. -/
theorem ends_exactly_at_horizon {M : Sys S A} {Inv : S → Prop} {other : S → A → Prop} {cmp : TL.Cmp} {T : Int}
    (h : Exact M Inv other cmp T) (hc : cmp ≠ .other) (hT : 0 < T) (s : S) (hi : Inv s) (h0 : M.count s = 0)
    (as : List A) (hlen : cmpHorizon cmp T ≤ as.length)
    (hno : ∀ (j : Nat) (a : A), (j : Int) + 1 < cmpHorizon cmp T → as[j]? = some a → ¬ other (M.stateAt s as j) a) :
    M.firstLast s as = some (cmpHorizon cmp T).toNat := by
  have hH : 0 < cmpHorizon cmp T := by cases cmp <;> simp [cmpHorizon] <;> omega
  refine (firstLast_spec M s as _).2 ⟨by omega, lastAt_horizon h.toLimited hc hT s hi h0 as hlen, ?_⟩
  intro j hj0 hjH
  obtain ⟨n, rfl⟩ : ∃ n, j = n + 1 := ⟨j - 1, by omega⟩
  have hlt : n < as.length := by omega
  have hget : as[n]? = some as[n] := List.getElem?_eq_getElem hlt
  rw [lastAt_succ M s as n _ hget]
  obtain ⟨hin, hcn⟩ := count_stateAt h.toLimited s hi as n (by omega)
  cases hl : M.last (M.stateAt s as n) as[n] with
  | false => rfl
  | true =>
    exfalso
    rcases (h.last_iff _ _ hin).1 hl with ho | hcm
    · exact hno n _ (by omega) hget ho
    · rw [cmpHolds_before cmp T _ (by rw [hcn, h0]; omega)] at hcm
      cases hcm

/-- COUNTER WITHIN THE LIMIT.  Every state up to and including the one produced by the first LAST step has
counter = number of steps taken, hence `0 ≤ count ≤ H`. -/
theorem count_within_horizon {M : Sys S A} {Inv : S → Prop} {cmp : TL.Cmp} {T : Int} (h : Limited M Inv cmp T)
    (hc : cmp ≠ .other) (hT : 0 < T) (s : S) (hi : Inv s) (h0 : M.count s = 0) (as : List A)
    (hlen : cmpHorizon cmp T ≤ as.length) :
    ∃ k, M.firstLast s as = some k ∧ ∀ j, j ≤ k →
      M.count (M.stateAt s as j) = j ∧ 0 ≤ M.count (M.stateAt s as j) ∧
        M.count (M.stateAt s as j) ≤ cmpHorizon cmp T := by
  obtain ⟨k, hk, _, hkle, hl, _⟩ := ends_by_horizon h hc hT s hi h0 as hlen
  refine ⟨k, hk, fun j hj => ?_⟩
  have hklen := (lastAt_le_length M s as k hl).2
  have := (count_stateAt h s hi as j (by omega)).2
  rw [h0] at this
  refine ⟨by omega, by omega, by omega⟩

/-- the same for action lists of ANY length (also shorter than the limit): as long as no LAST step has been
emitted, and on the first LAST step itself, the counter is within `[0, H]` -/
theorem count_within_horizon_any {M : Sys S A} {Inv : S → Prop} {cmp : TL.Cmp} {T : Int} (h : Limited M Inv cmp T)
    (hc : cmp ≠ .other) (hT : 0 < T) (s : S) (hi : Inv s) (h0 : M.count s = 0) (as : List A)
    (j : Nat) (hj : j ≤ as.length) (hbefore : ∀ i, 0 < i → i < j → M.lastAt s as i = false) :
    M.count (M.stateAt s as j) = j ∧ (j : Int) ≤ cmpHorizon cmp T := by
  have hcnt := (count_stateAt h s hi as j hj).2
  rw [h0] at hcnt
  refine ⟨by omega, ?_⟩
  -- otherwise step number H < j would have been LAST
  have hH : 0 < cmpHorizon cmp T := by cases cmp <;> simp [cmpHorizon] <;> omega
  by_cases hle : (j : Int) ≤ cmpHorizon cmp T
  · exact hle
  · exfalso
    have hlast := lastAt_horizon h hc hT s hi h0 as (by omega)
    rw [hbefore _ (by omega) (by omega)] at hlast
    cases hlast

/-! ### the `>=` instances (the comparison every shipped class uses, `Props.C11.table_ok`) -/

theorem ends_by_limit {M : Sys S A} {Inv : S → Prop} {T : Int} (h : Limited M Inv .ge T)
    (hT : 0 < T) (s : S) (hi : Inv s) (h0 : M.count s = 0) (as : List A) (hlen : T ≤ as.length) :
    ∃ k, M.firstLast s as = some k ∧ 0 < k ∧ (k : Int) ≤ T ∧
      M.lastAt s as k = true ∧ ∀ j, 0 < j → j < k → M.lastAt s as j = false :=
  ends_by_horizon h (by decide) hT s hi h0 as hlen

theorem ends_exactly_at_limit {M : Sys S A} {Inv : S → Prop} {other : S → A → Prop} {T : Int}
    (h : Exact M Inv other .ge T) (hT : 0 < T) (s : S) (hi : Inv s) (h0 : M.count s = 0)
    (as : List A) (hlen : T ≤ as.length)
    (hno : ∀ (j : Nat) (a : A), (j : Int) + 1 < T → as[j]? = some a → ¬ other (M.stateAt s as j) a) :
    M.firstLast s as = some T.toNat :=
  ends_exactly_at_horizon h (by decide) hT s hi h0 as hlen hno

theorem count_within_limit {M : Sys S A} {Inv : S → Prop} {T : Int} (h : Limited M Inv .ge T)
    (hT : 0 < T) (s : S) (hi : Inv s) (h0 : M.count s = 0) (as : List A) (hlen : T ≤ as.length) :
    ∃ k, M.firstLast s as = some k ∧ ∀ j, j ≤ k →
      M.count (M.stateAt s as j) = j ∧ 0 ≤ M.count (M.stateAt s as j) ∧ M.count (M.stateAt s as j) ≤ T :=
  count_within_horizon h (by decide) hT s hi h0 as hlen

/-- with the strict comparison `>` (the mutation `step_count > time_limit`) and no other cause, the episode
does NOT end at step `T`: step `T` is not LAST, the first LAST is step `T + 1` -/
theorem strict_cmp_is_late {M : Sys S A} {Inv : S → Prop} {other : S → A → Prop} {T : Int}
    (h : Exact M Inv other .gt T) (hT : 0 < T) (s : S) (hi : Inv s) (h0 : M.count s = 0)
    (as : List A) (hlen : T + 1 ≤ as.length)
    (hno : ∀ (j : Nat) (a : A), (j : Int) < T → as[j]? = some a → ¬ other (M.stateAt s as j) a) :
    M.firstLast s as = some (T.toNat + 1) ∧ M.lastAt s as T.toNat = false := by
  have := ends_exactly_at_horizon h (by decide) hT s hi h0 as hlen
    (fun j a hj => hno j a (by simp [cmpHorizon] at hj; omega))
  have e : (cmpHorizon .gt T).toNat = T.toNat + 1 := by simp [cmpHorizon]; omega
  rw [e] at this
  exact ⟨this, ((firstLast_spec M s as _).1 this).2.2 _ (by omega) (by omega)⟩

/-! ### concrete steps: `firstLast` of `ofStep` is what is measured on the rollout -/

theorem rollout_length (stp : S → A → S × TimeStep O) (s : S) (as : List A) :
    (rollout stp s as).length = as.length := by
  induction as generalizing s with
  | nil => rfl
  | cons a as ih => simp [rollout, ih]

/-- the `j`-th entry of the rollout is `step` applied to the state after `j` actions -/
theorem rollout_getElem? (stp : S → A → S × TimeStep O) (cnt : S → Int) (s : S) (as : List A) (j : Nat) :
    (rollout stp s as)[j]? = as[j]?.map (fun a => stp ((ofStep stp cnt).stateAt s as j) a) := by
  induction as generalizing s j with
  | nil => simp [rollout]
  | cons a as ih =>
    cases j with
    | zero => simp [rollout]
    | succ j => simp only [rollout, List.getElem?_cons_succ, ih, stateAt_cons_succ]; rfl

/-- the index of the first LAST timestep of the rollout is `firstLast` of the step system -/
theorem firstLast_ofStep (stp : S → A → S × TimeStep O) (cnt : S → Int) (s : S) (as : List A) :
    firstLastTS ((rollout stp s as).map (·.2)) = (ofStep stp cnt).firstLast s as := by
  induction as generalizing s with
  | nil => rfl
  | cons a as ih =>
    simp only [rollout, List.map_cons, firstLastTS, Sys.firstLast, ih]
    rfl


/-- what `firstLastTS` computes, in terms of the entries of the list: entry `k-1` is LAST, no earlier one is -/
theorem firstLastTS_spec (l : List (TimeStep O)) (k : Nat) :
    firstLastTS l = some k ↔
      (0 < k ∧ (∃ ts, l[k - 1]? = some ts ∧ ts.stepType = .last) ∧
        ∀ j ts, j + 1 < k → l[j]? = some ts → ts.stepType ≠ .last) := by
  induction l generalizing k with
  | nil => simp [firstLastTS]
  | cons t l ih =>
    unfold firstLastTS
    by_cases hl : t.stepType = .last
    · simp only [hl, beq_self_eq_true, if_true, Option.some.injEq]
      constructor
      · rintro rfl
        exact ⟨by omega, ⟨t, by simp, hl⟩, fun j ts hj => by omega⟩
      · rintro ⟨h0, _, h3⟩
        by_cases hk : k = 1
        · exact hk.symm
        · exact absurd hl (h3 0 t (by omega) (by simp))
    · have hb : (t.stepType == StepType.last) = false := by simpa using hl
      simp only [hb, Bool.false_eq_true, if_false, Option.map_eq_some_iff]
      constructor
      · rintro ⟨k', hk', rfl⟩
        obtain ⟨h0, ⟨ts, h1, h1'⟩, h2⟩ := (ih k').1 hk'
        obtain ⟨k'', rfl⟩ : ∃ k'', k' = k'' + 1 := ⟨k' - 1, by omega⟩
        refine ⟨by omega, ⟨ts, by simpa using h1, h1'⟩, ?_⟩
        intro j ts' hj hts'
        cases j with
        | zero => simp at hts'; subst hts'; exact hl
        | succ j => exact h2 j ts' (by omega) (by simpa using hts')
      · rintro ⟨h0, ⟨ts, h1, h1'⟩, h2⟩
        obtain ⟨k', rfl⟩ : ∃ k', k = k' + 1 := ⟨k - 1, by omega⟩
        cases k' with
        | zero => simp at h1; subst h1; exact absurd h1' hl
        | succ k' =>
          refine ⟨k' + 1, (ih _).2 ⟨by omega, ⟨ts, by simpa using h1, h1'⟩, ?_⟩, rfl⟩
          intro j ts' hj hts'
          exact h2 (j + 1) ts' (by omega) (by simpa using hts')

/-! ### building the hypotheses from the single-step facts of a concrete `step` -/

theorem Limited.of_step {stp : S → A → S × TimeStep O} {cnt : S → Int} {Inv : S → Prop} {T : Int}
    (hinv : ∀ s a, Inv s → Inv (stp s a).1)
    (hcnt : ∀ s a, Inv s → cnt (stp s a).1 = cnt s + 1)
    (hlast : ∀ s a, Inv s → T ≤ cnt s + 1 → (stp s a).2.stepType = .last) :
    Limited (ofStep stp cnt) Inv .ge T :=
  ⟨hinv, hcnt, fun s a hi hc => by
    have hc' : T ≤ cnt s + 1 := (cmpHolds_ge _ _).1 hc
    have := hlast s a hi hc'
    simp [ofStep, this]⟩

theorem Exact.of_step {stp : S → A → S × TimeStep O} {cnt : S → Int} {Inv : S → Prop} {other : S → A → Prop}
    {T : Int}
    (hinv : ∀ s a, Inv s → Inv (stp s a).1)
    (hcnt : ∀ s a, Inv s → cnt (stp s a).1 = cnt s + 1)
    (hlast : ∀ s a, Inv s → ((stp s a).2.stepType = .last ↔ (other s a ∨ T ≤ cnt s + 1))) :
    Exact (ofStep stp cnt) Inv other .ge T :=
  ⟨hinv, hcnt, fun s a hi => by
    have := hlast s a hi
    simp only [ofStep, beq_iff_eq, cmpHolds_ge]
    exact this⟩

/-! ### the three episode theorems for a concrete `step`, stated on the rollout (the list of emitted
timesteps) — this is the form the per-environment instances use -/

theorem rollout_ends_by_limit {stp : S → A → S × TimeStep O} {cnt : S → Int} {Inv : S → Prop} {T : Int}
    (h : Limited (ofStep stp cnt) Inv .ge T) (hT : 0 < T) (s : S) (hi : Inv s) (h0 : cnt s = 0)
    (as : List A) (hlen : T ≤ as.length) :
    ∃ k, firstLastTS ((rollout stp s as).map (·.2)) = some k ∧ 0 < k ∧ (k : Int) ≤ T := by
  obtain ⟨k, hk, h1, h2, _⟩ := ends_by_limit h hT s hi h0 as hlen
  exact ⟨k, by rw [firstLast_ofStep stp cnt]; exact hk, h1, h2⟩

theorem rollout_ends_exactly_at_limit {stp : S → A → S × TimeStep O} {cnt : S → Int} {Inv : S → Prop}
    {other : S → A → Prop} {T : Int}
    (h : Exact (ofStep stp cnt) Inv other .ge T) (hT : 0 < T) (s : S) (hi : Inv s) (h0 : cnt s = 0)
    (as : List A) (hlen : T ≤ as.length)
    (hno : ∀ (j : Nat) (a : A), (j : Int) + 1 < T → as[j]? = some a → ¬ other ((ofStep stp cnt).stateAt s as j) a) :
    firstLastTS ((rollout stp s as).map (·.2)) = some T.toNat := by
  rw [firstLast_ofStep stp cnt]; exact ends_exactly_at_limit h hT s hi h0 as hlen hno

/-- state counters AND the counters shown in the emitted observations (`ocnt`), up to and including the first
LAST timestep: entry `j` of the rollout (the `j+1`-th step) has counter `j + 1`, within `[0, T]` -/
theorem rollout_count_within_limit {stp : S → A → S × TimeStep O} {cnt : S → Int} {Inv : S → Prop} {T : Int}
    (h : Limited (ofStep stp cnt) Inv .ge T) (hT : 0 < T) (s : S) (hi : Inv s) (h0 : cnt s = 0)
    (as : List A) (hlen : T ≤ as.length) :
    ∃ k, firstLastTS ((rollout stp s as).map (·.2)) = some k ∧
      ∀ j e, j < k → (rollout stp s as)[j]? = some e →
        cnt e.1 = (j : Int) + 1 ∧ 0 ≤ cnt e.1 ∧ cnt e.1 ≤ T := by
  obtain ⟨k, hk, hall⟩ := count_within_limit h hT s hi h0 as hlen
  refine ⟨k, by rw [firstLast_ofStep stp cnt]; exact hk, ?_⟩
  intro j e hj he
  rw [rollout_getElem? stp cnt] at he
  cases ha : as[j]? with
  | none => simp [ha] at he
  | some a =>
    simp only [ha, Option.map_some, Option.some.injEq] at he
    subst he
    have hst := stateAt_succ (ofStep stp cnt) s as j a ha
    have := hall (j + 1) (by omega)
    rw [hst] at this
    obtain ⟨e1, e2, e3⟩ := this
    have e1' : cnt (stp ((ofStep stp cnt).stateAt s as j) a).1 = ((j + 1 : Nat) : Int) := e1
    exact ⟨by omega, e2, e3⟩

theorem rollout_obs_count_within_limit {stp : S → A → S × TimeStep O} {cnt : S → Int} {Inv : S → Prop} {T : Int}
    (h : Limited (ofStep stp cnt) Inv .ge T) (ocnt : O → Int)
    (hobs : ∀ s a, Inv s → ocnt (stp s a).2.obs = cnt (stp s a).1)
    (hT : 0 < T) (s : S) (hi : Inv s) (h0 : cnt s = 0) (as : List A) (hlen : T ≤ as.length) :
    ∃ k, firstLastTS ((rollout stp s as).map (·.2)) = some k ∧
      ∀ j e, j < k → (rollout stp s as)[j]? = some e →
        ocnt e.2.obs = (j : Int) + 1 ∧ 0 ≤ ocnt e.2.obs ∧ ocnt e.2.obs ≤ T := by
  obtain ⟨k, hk, hall⟩ := rollout_count_within_limit h hT s hi h0 as hlen
  refine ⟨k, hk, ?_⟩
  intro j e hj he
  have hc := hall j e hj he
  have he' := he
  rw [rollout_getElem? stp cnt] at he'
  cases ha : as[j]? with
  | none => simp [ha] at he'
  | some a =>
    simp only [ha, Option.map_some, Option.some.injEq] at he'
    have hin := (count_stateAt h s hi as j (by have := (List.getElem?_eq_some_iff.1 ha).1; omega)).1
    have := hobs _ a hin
    rw [he'] at this
    rw [this]; exact hc


/-! ### non-vacuity: a concrete system satisfying the hypotheses, for `>=` and for `>` -/
namespace Example
/-- states are the counter itself, an action is the flag "another cause ends the episode now" -/
def toy (cmp : TL.Cmp) (T : Int) : Sys Int Bool :=
  { step := fun s _ => s + 1, last := fun s a => a || cmpHolds cmp (s + 1) T, count := id }

theorem toy_exact (cmp : TL.Cmp) (T : Int) : Exact (toy cmp T) (fun _ => True) (fun _ a => a = true) cmp T :=
  ⟨fun _ _ h => h, fun _ _ _ => rfl, fun s a _ => by simp [toy]⟩

-- limit 3, five actions without another cause: the first LAST is step 3 (by the theorem, then by evaluation)
example : (toy .ge 3).firstLast 0 [false, false, false, false, false] = some 3 :=
  ends_exactly_at_limit (toy_exact .ge 3) (by decide) 0 trivial rfl _ (by decide)
    (fun j a _ ha hb => by
      subst hb
      match j, ha with
      | 0, ha => simp at ha
      | 1, ha => simp at ha
      | 2, ha => simp at ha
      | 3, ha => simp at ha
      | 4, ha => simp at ha
      | (n + 5), ha => simp at ha)
example : (toy .ge 3).firstLast 0 [false, false, false, false, false] = some 3 := by decide
-- another cause at step 2: earlier, still within the limit
example : (toy .ge 3).firstLast 0 [false, true, false, false] = some 2 := by decide
example : ∃ k, (toy .ge 3).firstLast 0 [false, true, false, false] = some k ∧ 0 < k ∧ (k : Int) ≤ 3 := by
  obtain ⟨k, h, h0, h1, _⟩ := ends_by_limit (toy_exact .ge 3).toLimited (by decide) 0 trivial rfl
    [false, true, false, false] (by decide)
  exact ⟨k, h, h0, h1⟩
-- the mutation `>`: one step late
example : (toy .gt 3).firstLast 0 [false, false, false, false, false] = some 4 := by decide
-- counters along the episode up to the first LAST: 0, 1, 2, 3
example : (List.range 4).map ((toy .ge 3).stateAt 0 [false, false, false, false, false]) = [0, 1, 2, 3] := by decide
end Example

end Ep
