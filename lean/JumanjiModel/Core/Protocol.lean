/-
Syntax of the expression with which an environment's `step` builds its final timestep, as
recovered from the source by `harness/translators.py` (gen_protocol), and its semantics in terms of
the constructors of `Core/TimeStep.lean`.  Import-free.
-/
import JumanjiModel.Core.TimeStep
namespace Proto
open Jm

inductive Ctor | termination | transition | truncation
  deriving DecidableEq, Repr

/-- one branch: which constructor, whether `shape=` and `discount=` are passed -/
structure Branch where
  ctor : Ctor
  hasShape : Bool
  hasDiscount : Bool
  deriving DecidableEq, Repr

/-- `cond c t f` = `lax.cond(done, t, f, …)`;  `switch4 bs` = LBF's
`lax.switch(terminate + 2*truncate, [b0, b1, b2, b3], …)` -/
inductive Shape
  | cond (onTrue onFalse : Branch)
  | switch4 (b0 b1 b2 b3 : Branch)
  | unrecognised
  deriving DecidableEq, Repr

/-- per environment class: the step expression, whether `restart` is given `shape=`, and whether
the class declares a multi-agent reward/discount spec -/
structure Entry where
  cls : String
  step : Shape
  resetHasShape : Bool
  multi : Bool
  deriving DecidableEq, Repr

variable {O : Type}

/-- the part of `Jm.StepOK` that does not mention the reward: everything the constructors of `jumanji/types.py`
build themselves (step type, discount) — the reward is passed through unchanged -/
def DiscOK (sh : RShape) (truncOK : Bool) (ts : TimeStep O) : Bool :=
  ts.stepType != .first &&
  ts.discount.length == sh.size &&
  allIn01 ts.discount &&
  (ts.stepType != .mid || !(allZero ts.discount)) &&
  (ts.stepType != .last || truncOK || allZero ts.discount)

def evalBranch (b : Branch) (sh : RShape) (r : List Rat) (o : O) (disc : List Rat) : TimeStep O :=
  let s : RShape := if b.hasShape then sh else none
  match b.ctor with
  | .termination => termination r o s
  | .transition => transition r o (if b.hasDiscount then some disc else none) s
  | .truncation => truncation r o (if b.hasDiscount then some disc else none) s

/-- semantics of a step expression; `done`/`terminate`/`truncate` are the booleans the environment computes -/
def evalStep (s : Shape) (sh : RShape) (terminate truncate : Bool) (r : List Rat) (o : O) (disc : List Rat) :
    Option (TimeStep O) :=
  match s with
  | .cond t f => some (if terminate then evalBranch t sh r o disc else evalBranch f sh r o disc)
  | .switch4 b0 b1 b2 b3 =>
    some (match terminate, truncate with
      | false, false => evalBranch b0 sh r o disc
      | true, false => evalBranch b1 sh r o disc
      | false, true => evalBranch b2 sh r o disc
      | true, true => evalBranch b3 sh r o disc)
  | .unrecognised => none

/-- the syntactic discipline under which the protocol theorem holds:
* every branch passes `shape=` iff the class is multi-agent, and so does `restart`;
* `cond`: the true branch is `termination`, the false branch is `transition`;
* `switch4`: [transition, termination, truncation (no explicit discount), termination]. -/
def Entry.wellFormed (e : Entry) : Bool :=
  e.resetHasShape == e.multi &&
  match e.step with
  | .cond t f =>
    t.ctor == .termination && f.ctor == .transition && t.hasShape == e.multi && f.hasShape == e.multi &&
    !t.hasDiscount
  | .switch4 b0 b1 b2 b3 =>
    b0.ctor == .transition && b1.ctor == .termination && b2.ctor == .truncation && b3.ctor == .termination &&
    b0.hasShape == e.multi && b1.hasShape == e.multi && b2.hasShape == e.multi && b3.hasShape == e.multi &&
    !b0.hasDiscount && !b2.hasDiscount
  | .unrecognised => false

/-- does the expression pass an explicit `discount=` to a constructor (Connector's MID branch)?  Only then does
the environment, not `jumanji/types.py`, build the discount. -/
def Entry.explicitDiscount (e : Entry) : Bool :=
  match e.step with
  | .cond t f => t.hasDiscount || f.hasDiscount
  | .switch4 b0 b1 b2 b3 => b0.hasDiscount || b1.hasDiscount || b2.hasDiscount || b3.hasDiscount
  | .unrecognised => false

/-- does the expression use documented truncation (LAST with non-zero discount)? -/
def Entry.truncates (e : Entry) : Bool :=
  match e.step with | .switch4 .. => true | _ => false

end Proto
