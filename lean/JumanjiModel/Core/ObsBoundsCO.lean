/-
Observation value bounds (property C01): a small vocabulary shared by the `Env/<Name>/Bounds.lean`
files of Knapsack, TSP, CVRP, MultiCVRP, JobShop and BinPack.  Import-free.

* a *bounds table* lists, per numeric leaf of the observation (key = dotted path of the leaf in the
  real `observation_spec`), an interval `[lo, hi]` of rationals (`none` = unbounded on that side);
* the *leaves* of an observation are its numeric leaves flattened to lists of rationals
  (bool ↦ 0/1, integers cast);
* `InBounds table leaves` : every listed leaf exists in the observation and all its values lie in
  the listed interval.
-/
import JumanjiModel.Core.TimeStep
import JumanjiModel.Prim.Idx
namespace Jm.OB

abbrev Table := List (String × Option Rat × Option Rat)
abbrev Leaves := List (String × List Rat)

def b2r (b : Bool) : Rat := if b then 1 else 0

/-- `lo ≤ v ≤ hi` with `none` = no constraint -/
def inIv (lo hi : Option Rat) (v : Rat) : Prop :=
  (match lo with | some l => l ≤ v | none => True) ∧ (match hi with | some h => v ≤ h | none => True)

instance (lo hi : Option Rat) (v : Rat) : Decidable (inIv lo hi v) := by
  unfold inIv; cases lo <;> cases hi <;> infer_instance

/-- value list of the leaf `k` (first entry with that key) -/
def find (k : String) : Leaves → Option (List Rat)
  | [] => none
  | (k', vs) :: rest => if k = k' then some vs else find k rest

/-- every listed leaf exists and all its values are inside its interval -/
def InBounds (t : Table) (ls : Leaves) : Prop :=
  ∀ e ∈ t, ∃ vs, find e.1 ls = some vs ∧ ∀ v ∈ vs, inIv e.2.1 e.2.2 v

theorem inBounds_nil (ls : Leaves) : InBounds [] ls := by intro e he; cases he

theorem inBounds_cons (k : String) (lo hi : Option Rat) (t : Table) (ls : Leaves) (vs : List Rat)
    (hf : find k ls = some vs) (hv : ∀ v ∈ vs, inIv lo hi v) (ht : InBounds t ls) :
    InBounds ((k, lo, hi) :: t) ls := by
  intro e he
  rcases List.mem_cons.mp he with rfl | he
  · exact ⟨vs, hf, hv⟩
  · exact ht e he

theorem b2r_in01 (b : Bool) : inIv (some 0) (some 1) (b2r b) := by
  cases b <;> simp [b2r, inIv] <;> decide

theorem bools_in01 (bs : List Bool) : ∀ v ∈ bs.map b2r, inIv (some 0) (some 1) v := by
  intro v hv
  rcases List.mem_map.mp hv with ⟨b, _, rfl⟩
  exact b2r_in01 b

theorem bools2_in01 (bs : List (List Bool)) : ∀ v ∈ (bs.flatten).map b2r, inIv (some 0) (some 1) v :=
  bools_in01 _

/-- membership form for a flattened 2-d leaf -/
theorem flat_in (g : List (List Rat)) (lo hi : Option Rat)
    (h : ∀ row ∈ g, ∀ x ∈ row, inIv lo hi x) : ∀ v ∈ g.flatten, inIv lo hi v := by
  intro v hv
  rcases List.mem_flatten.mp hv with ⟨row, hr, hx⟩
  exact h row hr v hx

theorem condLast_obs {O : Type} (done : Bool) (r : List Rat) (o : O) (sh : RShape := none) :
    (condLast done r o sh).obs = o := by
  unfold condLast; split <;> rfl

/-- a scatter only adds the scattered value -/
theorem mem_setWD {α} {xs : List α} {i : Int} {v x : α} (h : x ∈ Jx.setWD xs i v) : x ∈ xs ∨ x = v := by
  unfold Jx.setWD at h
  simp only [] at h
  split at h
  · exact Or.inl h
  · split at h
    · exact Or.inl h
    · rcases List.mem_or_eq_of_mem_set h with h | h
      · exact Or.inl h
      · exact Or.inr h

/-- a gather returns an element of the list (the default only for the empty list) -/
theorem getWC_mem {α} (xs : List α) (d : α) (i : Int) (h : xs ≠ []) : Jx.getWC xs d i ∈ xs := by
  unfold Jx.getWC
  have hl : 0 < xs.length := List.length_pos_iff.mpr h
  have := Jx.clampIdx_lt hl i
  simp [List.getD_eq_getElem?_getD, List.getElem?_eq_getElem this]

theorem getWC_mem_or {α} (xs : List α) (d : α) (i : Int) : Jx.getWC xs d i ∈ xs ∨ Jx.getWC xs d i = d := by
  cases xs with
  | nil => right; simp [Jx.getWC]
  | cons a as => left; exact getWC_mem _ _ _ (by simp)

end Jm.OB
