/-
Episodes of an abstract step system (C11 / C01, environment independent).  A `Sys` is what every
environment's `step` is as far as the time limit is concerned: a transition function, the flag "the
timestep emitted by this step is LAST" and a step counter.  `ofStep` turns a concrete
`step : S → A → S × TimeStep O` into a `Sys`; `rollout` iterates it (WITHOUT stopping at LAST: the
library has no auto-reset in `step`, stepping after LAST is allowed) and `firstLastTS` is the index
the harness measures on real rollouts: the 1-based position of the first LAST timestep.
Import-free (core Lean + Core/TimeStep, Core/TimeLimit).
-/
import JumanjiModel.Core.TimeStep
import JumanjiModel.Core.TimeLimit
namespace Ep
open Jm

structure Sys (S A : Type) where
  step : S → A → S
  /-- `last s a`: the timestep emitted by stepping `s` with `a` is LAST -/
  last : S → A → Bool
  count : S → Int

variable {S A O : Type}

/-- the state after playing the whole action list (no stop at LAST) -/
def Sys.run (M : Sys S A) : S → List A → S
  | s, [] => s
  | s, a :: as => M.run (M.step s a) as

/-- the state after the first `j` actions (`stateAt 0` = start state) -/
def Sys.stateAt (M : Sys S A) (s : S) (as : List A) (j : Nat) : S := M.run s (as.take j)

/-- step number `j` (1-based: the step that plays `as[j-1]` from `stateAt (j-1)`) emits LAST -/
def Sys.lastAt (M : Sys S A) (s : S) (as : List A) : Nat → Bool
  | 0 => false
  | j+1 => match as[j]? with
    | some a => M.last (M.stateAt s as j) a
    | none => false

/-- 1-based number of the first step that emits LAST, `none` if no step of the list does -/
def Sys.firstLast (M : Sys S A) : S → List A → Option Nat
  | _, [] => none
  | s, a :: as => if M.last s a then some 1 else (M.firstLast (M.step s a) as).map (· + 1)

/-- the system of a concrete environment step -/
def ofStep (stp : S → A → S × TimeStep O) (cnt : S → Int) : Sys S A :=
  { step := fun s a => (stp s a).1, last := fun s a => (stp s a).2.stepType == .last, count := cnt }

/-- iterated `step`: the list of (successor state, emitted timestep), one entry per action -/
def rollout (stp : S → A → S × TimeStep O) : S → List A → List (S × TimeStep O)
  | _, [] => []
  | s, a :: as => stp s a :: rollout stp (stp s a).1 as

/-- what the harness measures: 1-based index of the first LAST timestep of a list of timesteps -/
def firstLastTS : List (TimeStep O) → Option Nat
  | [] => none
  | ts :: rest => if ts.stepType == .last then some 1 else (firstLastTS rest).map (· + 1)

/-! ### the single-step hypotheses -/

/-- the `done` comparison of the step count (after the increment) with the limit, by the
comparison operator the translator found in the source (`Gen.TimeLimit`, field `doneCmp`) -/
def cmpHolds : TL.Cmp → Int → Int → Bool
  | .ge, c, T => decide (c ≥ T)
  | .gt, c, T => decide (c > T)
  | .eq, c, T => decide (c = T)
  | .other, _, _ => false

/-- the step number at which a counter started at 0 first satisfies the comparison -/
def cmpHorizon : TL.Cmp → Int → Int
  | .gt, T => T + 1
  | _, T => T

/-- One direction only ("never later"): `Inv` is an invariant (`True` for most environments; Maze needs
the shape of the walls, FlatPack that the number of blocks is the limit), every step increments the
counter, and a step whose incremented counter satisfies the comparison with `T` emits LAST. -/
structure Limited (M : Sys S A) (Inv : S → Prop) (cmp : TL.Cmp) (T : Int) : Prop where
  inv_step : ∀ s a, Inv s → Inv (M.step s a)
  count_step : ∀ s a, Inv s → M.count (M.step s a) = M.count s + 1
  limit_last : ∀ s a, Inv s → cmpHolds cmp (M.count s + 1) T = true → M.last s a = true

/-- Both directions ("never later, never earlier"): LAST iff another cause `other s a` holds or the
incremented counter satisfies the comparison with `T`. -/
structure Exact (M : Sys S A) (Inv : S → Prop) (other : S → A → Prop) (cmp : TL.Cmp) (T : Int) : Prop where
  inv_step : ∀ s a, Inv s → Inv (M.step s a)
  count_step : ∀ s a, Inv s → M.count (M.step s a) = M.count s + 1
  last_iff : ∀ s a, Inv s → (M.last s a = true ↔ (other s a ∨ cmpHolds cmp (M.count s + 1) T = true))

end Ep
