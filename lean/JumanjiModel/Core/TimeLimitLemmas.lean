import JumanjiModel.Core.TimeLimit
namespace TL

theorem honours_eval (e : PyExpr) (h : e.honours = true) (attrs : String → Nat) (tl : Nat) (htl : 0 < tl) :
    e.eval attrs (.int tl) = some (.int tl) := by
  cases e with
  | arg => rfl
  | or a b =>
    cases a <;> simp [PyExpr.honours] at h
    simp [PyExpr.eval, PyVal.truthy]; omega
  | _ => simp [PyExpr.honours] at h

theorem honours_default (b : PyExpr) (attrs : String → Nat) :
    (PyExpr.or .arg b).eval attrs .none = b.eval attrs .none := by
  simp [PyExpr.eval, PyVal.truthy]

end TL
