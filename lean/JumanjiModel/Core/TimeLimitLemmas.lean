import JumanjiModel.Core.TimeLimit
namespace TL

theorem honours_eval (e : PyExpr) (h : e.honours = true) (attrs : String → Nat) (tl : Nat) (htl : 0 < tl) :
    e.eval attrs (.int tl) = some (.int tl) := by
  cases e with
  | arg => rfl
  | or a b =>
    cases a <;> simp [PyExpr.honours] at h
    simp [PyExpr.eval, PyVal.truthy]; omega
  | _ => simp [PyExpr.honours] at h

theorem honours_default (b : PyExpr) (attrs : String → Nat) :
    (PyExpr.or .arg b).eval attrs .none = b.eval attrs .none := by
  simp [PyExpr.eval, PyVal.truthy]

/-- the episode ends at the latest at step `T` … -/
theorem firstLast_le (other : Nat → Bool) (T : Nat) (fuel t : Nat) (hT : t < T) (hf : T ≤ t + fuel) :
    ∃ k, firstLast other T fuel t = some k ∧ t < k ∧ k ≤ T := by
  induction fuel generalizing t with
  | zero => omega
  | succ f ih =>
    unfold firstLast
    by_cases hc : (other (t+1) || decide (t+1 ≥ T)) = true
    · rw [if_pos hc]; exact ⟨t+1, rfl, by omega, by omega⟩
    · rw [if_neg hc]
      have hlt : t + 1 < T := by
        simp at hc; omega
      obtain ⟨k, hk, h1, h2⟩ := ih (t+1) hlt (by omega)
      exact ⟨k, hk, by omega, h2⟩

/-- … and exactly at step `T` when nothing else ends it before -/
theorem firstLast_eq (other : Nat → Bool) (T : Nat) (fuel t : Nat) (hT : t < T) (hf : T ≤ t + fuel)
    (hno : ∀ k, t < k → k < T → other k = false) :
    firstLast other T fuel t = some T := by
  induction fuel generalizing t with
  | zero => omega
  | succ f ih =>
    unfold firstLast
    by_cases hlast : t + 1 = T
    · have : (other (t+1) || decide (t+1 ≥ T)) = true := by simp; right; omega
      rw [if_pos this, hlast]
    · have hlt : t + 1 < T := by omega
      have : (other (t+1) || decide (t+1 ≥ T)) = false := by
        simp [hno (t+1) (by omega) hlt]; omega
      rw [this]
      simp only [Bool.false_eq_true, if_false]
      exact ih (t+1) hlt (by omega) (fun k h1 h2 => hno k (by omega) h2)

/-- with a strict comparison (`>`), the episode would end one step late -/
theorem strict_cmp_is_late (T : Nat) (hT : 0 < T) :
    (if decide (T > T) then some T else none : Option Nat) = none := by simp

end TL
