import JumanjiModel.Registry
namespace Reg
variable {α : Type} [DecidableEq α] (C : Cls α)

/-- the hypotheses on the character classes under which the grammar theorems hold; Python's `re`
satisfies them: '-' is not a digit, '-' ≠ 'v' -/
structure ClsOK : Prop where
  dash_not_digit : C.D C.dash = false
  dash_ne_vee : C.dash ≠ C.vee

variable {C}

theorem all_D_false_of_dash (h : ClsOK C) (xs ys : List α) : (xs ++ C.dash :: ys).all C.D = false := by
  simp [List.all_append, h.dash_not_digit]

theorem restMatch_mid (h : ClsOK C) (c : α) (m ds : List α) :
    restMatch C (c :: (m ++ C.dash :: C.vee :: ds)) = none := by
  cases m with
  | nil =>
    simp only [List.nil_append, restMatch]
    rw [if_neg]
    intro hh
    exact h.dash_ne_vee hh.2.1
  | cons x m' =>
    simp only [List.cons_append, restMatch]
    rw [if_neg]
    intro hh
    have := all_D_false_of_dash h m' (C.vee :: ds)
    rw [this] at hh
    exact absurd hh.2.2.2 (by simp)

theorem restMatch_suffix (ds : List α) (hd : DigitsOK C ds) :
    restMatch C (C.dash :: C.vee :: ds) = some (some ds) := by
  have h2 : ds.all C.D = true := by rw [List.all_eq_true]; exact hd.2
  simp [restMatch, hd.1, h2]

theorem matchFrom_append (h : ClsOK C) (pre mid ds : List α) (hm : ∀ c ∈ mid, nameChar C c = true)
    (hd : DigitsOK C ds) :
    matchFrom C pre (mid ++ C.dash :: C.vee :: ds) = some (pre ++ mid, some ds) := by
  induction mid generalizing pre with
  | nil =>
    simp only [List.nil_append, matchFrom, restMatch_suffix ds hd, List.append_nil]
  | cons c m ih =>
    simp only [List.cons_append, matchFrom, restMatch_mid h c m ds, hm c (by simp), if_true]
    rw [ih (pre ++ [c]) (fun x hx => hm x (by simp [hx]))]
    simp

/-- L1 = L2 (completeness): a well-formed id is matched with exactly its name and version -/
theorem matchId_wellFormed (h : ClsOK C) (s n ds : List α) (hw : WellFormed C s n ds) :
    matchId C s = some (n, some ds) := by
  obtain ⟨rfl, hn, hd⟩ := hw
  cases n with
  | nil => exact absurd rfl hn.1
  | cons c m =>
    simp only [List.cons_append, matchId, hn.2 c (by simp), if_true]
    rw [matchFrom_append h [c] m ds (fun x hx => hn.2 x (by simp [hx])) hd]
    simp

theorem parse_wellFormed (h : ClsOK C) (s n ds : List α) (hw : WellFormed C s n ds) :
    parse C s = .ok (n, valOf C ds) := by
  simp [parse, matchId_wellFormed h s n ds hw]

/-! soundness: whatever the matcher returns is a decomposition of the input -/

theorem restMatch_some_some (r ds : List α) (hr : restMatch C r = some (some ds)) :
    r = C.dash :: C.vee :: ds ∧ DigitsOK C ds := by
  unfold restMatch at hr
  split at hr
  · simp at hr
  · split at hr
    · rename_i c1 c2 ds' hc
      injection hr with hr; injection hr with hr; subst hr
      obtain ⟨rfl, rfl, h3, h4⟩ := hc
      exact ⟨rfl, h3, by rwa [List.all_eq_true] at h4⟩
    · simp at hr
  · simp at hr

theorem restMatch_some_none (r : List α) (hr : restMatch C r = some none) : r = [] := by
  unfold restMatch at hr
  split at hr
  · rfl
  · split at hr <;> simp at hr
  · simp at hr

/-- `whole` decomposes as name `n` plus the (optional) version suffix `v` -/
def Decomp (C : Cls α) (whole n : List α) : Option (List α) → Prop
  | none => whole = n
  | some ds => whole = n ++ C.dash :: C.vee :: ds ∧ DigitsOK C ds

theorem matchFrom_sound (pre rest n : List α) (v : Option (List α))
    (hp : ∀ c ∈ pre, nameChar C c = true)
    (hm : matchFrom C pre rest = some (n, v)) :
    (∀ c ∈ n, nameChar C c = true) ∧ (∃ e, n = pre ++ e) ∧ Decomp C (pre ++ rest) n v := by
  induction rest generalizing pre with
  | nil =>
    simp only [matchFrom] at hm
    injection hm with hm; injection hm with h1 h2; subst h1; subst h2
    exact ⟨hp, ⟨[], by simp⟩, by simp [Decomp]⟩
  | cons c cs ih =>
    simp only [matchFrom] at hm
    split at hm
    · rename_i v' hv
      injection hm with hm; injection hm with h1 h2; subst h1; subst h2
      refine ⟨hp, ⟨[], by simp⟩, ?_⟩
      cases v' with
      | none => have := restMatch_some_none _ hv; simp at this
      | some ds =>
        obtain ⟨e, hd⟩ := restMatch_some_some _ ds hv
        exact ⟨by rw [e], hd⟩
    · split at hm
      · rename_i hc
        have := ih (pre ++ [c]) (fun x hx => by
          simp at hx; rcases hx with hx | rfl
          · exact hp x hx
          · exact hc) hm
        obtain ⟨h1, ⟨e, he⟩, h3⟩ := this
        refine ⟨h1, ⟨c :: e, by simp [he]⟩, ?_⟩
        simpa using h3
      · simp at hm

/-- L1 = L2 (soundness): a successful parse exhibits the documented shape `<name>-v<digits>` -/
theorem parse_ok_wellFormed (s n : List α) (v : Nat) (hp : parse C s = .ok (n, v)) :
    ∃ ds, WellFormed C s n ds ∧ v = valOf C ds := by
  unfold parse at hp
  split at hp
  · simp at hp
  · simp at hp
  · rename_i name ds hm
    injection hp with hp; injection hp with h1 h2; subst h1; subst h2
    refine ⟨ds, ?_, rfl⟩
    cases s with
    | nil => simp [matchId] at hm
    | cons c cs =>
      simp only [matchId] at hm
      split at hm
      · rename_i hc
        have := matchFrom_sound [c] cs name (some ds) (by simpa using hc) hm
        obtain ⟨h1, ⟨e, he⟩, h3, h4⟩ := this
        refine ⟨by simpa using h3, ⟨?_, h1⟩, h4⟩
        intro hn; subst hn; simp at he
      · simp at hm

/-- every malformed or version-less id is rejected -/
theorem parse_rejects (s : List α) (h : ¬ ∃ n ds, WellFormed C s n ds) :
    ∃ e, parse C s = .error e := by
  cases hp : parse C s with
  | error e => exact ⟨e, rfl⟩
  | ok p =>
    exfalso
    obtain ⟨n, v⟩ := p
    obtain ⟨ds, hw, _⟩ := parse_ok_wellFormed s n v hp
    exact h ⟨n, ds, hw⟩

/-- a bare name without version suffix is rejected as "version missing" -/
theorem parse_versionless (h : ClsOK C) (n : List α) (hn : NameOK C n)
    (hnv : ¬ ∃ n' ds, WellFormed C n n' ds) : parse C n = .error .versionMissing := by
  cases hp : parse C n with
  | ok p =>
    obtain ⟨n', v⟩ := p
    obtain ⟨ds, hw, _⟩ := parse_ok_wellFormed n n' v hp
    exact absurd ⟨n', ds, hw⟩ hnv
  | error e =>
    cases e with
    | versionMissing => rfl
    | malformed =>
      exfalso
      -- the whole string as name with empty remainder always matches when all chars are name chars
      unfold parse at hp
      split at hp
      · rename_i hm
        have key : ∀ (pre rest : List α), (∀ c ∈ rest, nameChar C c = true) → matchFrom C pre rest ≠ none := by
          intro pre rest
          induction rest generalizing pre with
          | nil => intro _; simp [matchFrom]
          | cons c cs ih =>
            intro hr
            simp only [matchFrom]
            split
            · simp
            · simp only [hr c (by simp), if_true]
              exact ih _ (fun x hx => hr x (by simp [hx]))
        cases n with
        | nil => exact hn.1 rfl
        | cons c cs =>
          simp only [matchId, hn.2 c (by simp), if_true] at hm
          exact key [c] cs (fun x hx => hn.2 x (by simp [hx])) hm
      · simp at hp
      · simp at hp

/-! ### decimal digits -/

theorem digitsAux_val (dig : Nat → α) (hval : ∀ k, k < 10 → C.val (dig k) = k) (fuel n : Nat) (acc : List α)
    (hf : n < fuel) :
    valOf C (digitsAux dig fuel n acc) = acc.foldl (fun a c => a * 10 + C.val c) n := by
  induction fuel generalizing n acc with
  | zero => omega
  | succ f ih =>
    unfold digitsAux
    split
    · rename_i h10
      simp [valOf, hval n h10]
    · rename_i h10
      rw [ih (n / 10) _ (by omega)]
      simp only [List.foldl_cons, hval (n % 10) (Nat.mod_lt _ (by omega))]
      congr 1
      omega

theorem valOf_digitsOf (dig : Nat → α) (hval : ∀ k, k < 10 → C.val (dig k) = k) (n : Nat) :
    valOf C (digitsOf dig n) = n := by
  unfold digitsOf
  rw [digitsAux_val dig hval (n+1) n [] (by omega)]
  simp

theorem digitsAux_ok (dig : Nat → α) (hD : ∀ k, k < 10 → C.D (dig k) = true) (fuel n : Nat) (acc : List α)
    (hf : 0 < fuel) (hacc : ∀ c ∈ acc, C.D c = true) :
    digitsAux dig fuel n acc ≠ [] ∧ ∀ c ∈ digitsAux dig fuel n acc, C.D c = true := by
  induction fuel generalizing n acc with
  | zero => omega
  | succ f ih =>
    unfold digitsAux
    split
    · rename_i h10
      refine ⟨by simp, ?_⟩
      intro c hc; simp at hc; rcases hc with rfl | hc
      · exact hD n h10
      · exact hacc c hc
    · rename_i h10
      have hacc' : ∀ c ∈ dig (n % 10) :: acc, C.D c = true := by
        intro c hc; simp at hc; rcases hc with rfl | hc
        · exact hD _ (Nat.mod_lt _ (by omega))
        · exact hacc c hc
      cases f with
      | zero =>
        simp only [digitsAux]
        exact ⟨by simp, hacc'⟩
      | succ f' => exact ih (n / 10) _ (by omega) hacc'

theorem digitsOf_ok (dig : Nat → α) (hD : ∀ k, k < 10 → C.D (dig k) = true) (n : Nat) :
    DigitsOK C (digitsOf dig n) := by
  unfold digitsOf DigitsOK
  exact digitsAux_ok dig hD (n+1) n [] (by omega) (by simp)

/-- round trip: a well-formed id `<name>-v<N>` parses to (name, N) … -/
theorem parse_format (h : ClsOK C) (dig : Nat → α) (hval : ∀ k, k < 10 → C.val (dig k) = k)
    (hD : ∀ k, k < 10 → C.D (dig k) = true) (name : List α) (hn : NameOK C name) (N : Nat) :
    parse C (format C dig name N) = .ok (name, N) := by
  have := parse_wellFormed h (format C dig name N) name (digitsOf dig N) ⟨rfl, hn, digitsOf_ok dig hD N⟩
  rw [this, valOf_digitsOf dig hval]

/-- … and formats back to itself when the version is written canonically; in general the id is
normalised (leading zeros dropped) and normalisation is idempotent -/
theorem format_parse (s n : List α) (v : Nat) (dig : Nat → α) (hp : parse C s = .ok (n, v))
    (hcanon : ∀ ds, s = n ++ C.dash :: C.vee :: ds → ds = digitsOf dig v) :
    format C dig n v = s := by
  obtain ⟨ds, ⟨hs, _, _⟩, _⟩ := parse_ok_wellFormed s n v hp
  rw [format, ← hcanon ds hs, hs]

theorem normalise_idempotent (h : ClsOK C) (dig : Nat → α) (hval : ∀ k, k < 10 → C.val (dig k) = k)
    (hD : ∀ k, k < 10 → C.D (dig k) = true) (s n : List α) (v : Nat) (hp : parse C s = .ok (n, v)) :
    parse C (format C dig n v) = .ok (n, v) := by
  obtain ⟨ds, ⟨_, hn, _⟩, _⟩ := parse_ok_wellFormed s n v hp
  exact parse_format h dig hval hD n hn v

/-! ### the registry -/
variable {κ ν : Type} [DecidableEq κ]

theorem register_dup_refused (dig : Nat → α) (r : Registry α κ ν) (id n : List α) (v : Nat) (ep : String)
    (kw : List (κ × ν)) (hp : parse C id = .ok (n, v)) (hin : format C dig n v ∈ registered r) :
    ∃ e, register C dig r id ep kw = .error e := by
  have : (List.map (fun x => x.fst) r).contains (format C dig n v) = true := by
    simpa [registered] using hin
  unfold register
  rw [hp]
  simp only []
  rw [if_pos this]
  exact ⟨_, rfl⟩

theorem register_ok (dig : Nat → α) (r r' : Registry α κ ν) (id : List α) (ep : String)
    (kw : List (κ × ν)) (h : register C dig r id ep kw = .ok r') :
    ∃ n v, parse C id = .ok (n, v) ∧ format C dig n v ∉ registered r ∧
      r' = r ++ [(format C dig n v, { entryPoint := ep, kwargs := kw })] := by
  unfold register at h
  split at h
  · simp at h
  · rename_i name version hp
    split at h
    · simp at h
    · rename_i hc
      injection h with h
      refine ⟨name, version, hp, ?_, h.symm⟩
      simpa [registered] using hc

/-- registration keeps the ids pairwise distinct -/
theorem register_nodup (dig : Nat → α) (r r' : Registry α κ ν) (id : List α) (ep : String)
    (kw : List (κ × ν)) (hr : (registered r).Nodup) (h : register C dig r id ep kw = .ok r') :
    (registered r').Nodup := by
  obtain ⟨n, v, _, hnot, rfl⟩ := register_ok dig r r' id ep kw h
  simp only [registered, List.map_append, List.map_cons, List.map_nil] at *
  rw [List.nodup_append]
  refine ⟨hr, by simp, ?_⟩
  intro a ha b hb
  simp at hb; subst hb
  intro hab; subst hab; exact hnot ha

theorem lookup_append_of_not_mem {β} (r : List (List α × β)) (k : List α) (x : β)
    (h : k ∉ r.map (·.1)) : (r ++ [(k, x)]).lookup k = some x := by
  induction r with
  | nil => simp [List.lookup]
  | cons p r ih =>
    simp at h
    have hne : (k == p.1) = false := by simp; exact fun e => h.1 e
    simp only [List.cons_append, List.lookup, hne]
    exact ih (by simpa using h.2)

/-- `make(id, **kw)` after a successful `register(id, ep, **reg)` builds `ep` with the registered
kwargs overridden by the caller's -/
theorem make_after_register (h : ClsOK C) (dig : Nat → α) (hval : ∀ k, k < 10 → C.val (dig k) = k)
    (hD : ∀ k, k < 10 → C.D (dig k) = true)
    (r r' : Registry α κ ν) (id : List α) (ep : String) (reg kw : List (κ × ν))
    (hr : register C dig r id ep reg = .ok r') :
    make C dig r' id kw = .ok (ep, mergeKwargs reg kw) := by
  obtain ⟨n, v, hp, hnot, rfl⟩ := register_ok dig r r' id ep reg hr
  unfold make
  simp only [hp]
  rw [lookup_append_of_not_mem r _ _ (by simpa [registered] using hnot)]

/-- caller's keyword arguments take precedence, the others are the registered ones -/
theorem mergeKwargs_lookup [DecidableEq ν] (reg caller : List (κ × ν)) (k : κ) :
    (mergeKwargs reg caller).lookup k =
      match caller.lookup k with
      | some v => some v
      | none => reg.lookup k := by
  unfold mergeKwargs
  induction reg with
  | nil => simp; cases caller.lookup k <;> rfl
  | cons p reg ih =>
    simp only [List.filter_cons]
    by_cases hc : (caller.map (·.1)).contains p.1 = true
    · simp only [hc, Bool.not_true, Bool.false_eq_true, if_false]
      rw [ih]
      cases hl : caller.lookup k with
      | some v => rfl
      | none =>
        simp only [List.lookup]
        by_cases hk : k = p.1
        · subst hk
          exfalso
          have : ∀ (l : List (κ × ν)), l.lookup p.1 = none → (l.map (·.1)).contains p.1 = false := by
            intro l
            induction l with
            | nil => simp
            | cons q l ihl =>
              simp only [List.lookup]
              split
              · simp
              · rename_i hq
                intro hh
                simp only [List.map_cons, List.contains_cons, hq, ihl hh, Bool.or_false]
          rw [this caller hl] at hc
          simp at hc
        · have : (k == p.1) = false := by simpa using hk
          simp [this]
    · simp only [hc, Bool.not_false, if_true, List.cons_append, List.lookup]
      by_cases hk : k = p.1
      · subst hk
        simp only [beq_self_eq_true]
        have : caller.lookup p.1 = none := by
          have hc' : (caller.map (·.1)).contains p.1 = false := by simpa using hc
          clear ih hc
          induction caller with
          | nil => rfl
          | cons q l ihl =>
            simp only [List.map_cons, List.contains_cons, Bool.or_eq_false_iff] at hc'
            simp only [List.lookup, hc'.1]
            exact ihl hc'.2
        rw [this]
      · have : (k == p.1) = false := by simpa using hk
        simp only [this]
        exact ih

/-- an unknown id is refused with the list of registered ids -/
theorem make_unknown (dig : Nat → α) (r : Registry α κ ν) (id n : List α) (v : Nat) (kw : List (κ × ν))
    (hp : parse C id = .ok (n, v)) (hnot : r.lookup (format C dig n v) = none) :
    ∃ e, make C dig r id kw = .error e := by
  unfold make; simp only [hp, hnot]; exact ⟨_, rfl⟩

end Reg

namespace Reg
variable {α : Type} [DecidableEq α] {C : Cls α}

/-! ### canonical decimal strings: `digitsOf` is the inverse of `valOf` on them -/

/-- a version string written with the digits `dig 0 … dig 9` and without leading zeros -/
def Canonical (dig : Nat → α) (ds : List α) : Prop :=
  ds ≠ [] ∧ (∀ c ∈ ds, ∃ k, k < 10 ∧ c = dig k) ∧ (∀ c rest, ds = c :: rest → rest ≠ [] → c ≠ dig 0)

theorem digitsAux_fuel (dig : Nat → α) (f1 f2 n : Nat) (acc : List α) (h1 : n < f1) (h2 : n < f2) :
    digitsAux dig f1 n acc = digitsAux dig f2 n acc := by
  induction f1 generalizing f2 n acc with
  | zero => omega
  | succ f1 ih =>
    cases f2 with
    | zero => omega
    | succ f2 =>
      unfold digitsAux
      split
      · rfl
      · exact ih f2 (n / 10) _ (by omega) (by omega)

theorem digitsAux_acc (dig : Nat → α) (fuel n : Nat) (acc : List α) :
    digitsAux dig fuel n acc = digitsAux dig fuel n [] ++ acc := by
  induction fuel generalizing n acc with
  | zero => simp [digitsAux]
  | succ f ih =>
    unfold digitsAux
    split
    · simp
    · rw [ih (n / 10) (dig (n % 10) :: acc), ih (n / 10) [dig (n % 10)]]
      simp

theorem digitsOf_lt (dig : Nat → α) (n : Nat) (h : n < 10) : digitsOf dig n = [dig n] := by
  unfold digitsOf digitsAux; simp [h]

theorem digitsOf_ge (dig : Nat → α) (n : Nat) (h : 10 ≤ n) :
    digitsOf dig n = digitsOf dig (n / 10) ++ [dig (n % 10)] := by
  have hn : ¬ n < 10 := by omega
  unfold digitsOf
  rw [digitsAux]
  simp only [hn, if_false]
  rw [digitsAux_acc, digitsAux_fuel dig n (n / 10 + 1) (n / 10) [] (by omega) (by omega)]

theorem valOf_snoc (ds : List α) (c : α) : valOf C (ds ++ [c]) = valOf C ds * 10 + C.val c := by
  simp [valOf, List.foldl_append]

theorem foldl_val_ge (ds : List α) (a : Nat) : a ≤ ds.foldl (fun acc c => acc * 10 + C.val c) a := by
  induction ds generalizing a with
  | nil => exact Nat.le_refl _
  | cons c ds ih =>
    simp only [List.foldl_cons]
    exact Nat.le_trans (by omega) (ih _)

theorem valOf_pos (dig : Nat → α) (hval : ∀ k, k < 10 → C.val (dig k) = k) (c : α) (rest : List α)
    (hc : ∃ k, k < 10 ∧ c = dig k) (h0 : c ≠ dig 0) : 0 < valOf C (c :: rest) := by
  obtain ⟨k, hk, rfl⟩ := hc
  have hk0 : k ≠ 0 := fun e => h0 (by rw [e])
  have := foldl_val_ge (C := C) rest (0 * 10 + C.val (dig k))
  simp only [valOf, List.foldl_cons]
  rw [hval k hk] at this ⊢
  omega

theorem Canonical.init (dig : Nat → α) (ds : List α) (c : α) (hne : ds ≠ []) (h : Canonical dig (ds ++ [c])) :
    Canonical dig ds := by
  obtain ⟨_, h2, h3⟩ := h
  refine ⟨hne, fun x hx => h2 x (by simp [hx]), ?_⟩
  intro x rest e hr
  exact h3 x (rest ++ [c]) (by simp [e]) (by simp)

/-- `digitsOf ∘ valOf = id` on canonical digit strings (proved for every string, by induction from the last digit) -/
theorem digitsOf_valOf_rev (dig : Nat → α) (hval : ∀ k, k < 10 → C.val (dig k) = k) (rs : List α)
    (hc : Canonical dig rs.reverse) : digitsOf dig (valOf C rs.reverse) = rs.reverse := by
  induction rs with
  | nil => exact absurd rfl hc.1
  | cons c rs ih =>
    simp only [List.reverse_cons] at hc ⊢
    obtain ⟨k, hk, rfl⟩ := hc.2.1 c (by simp)
    rw [valOf_snoc, hval k hk]
    cases hrs : rs.reverse with
    | nil =>
      simp [valOf, digitsOf_lt dig k hk]
    | cons d rest =>
      have hne : rs.reverse ≠ [] := by rw [hrs]; simp
      have hci := Canonical.init dig rs.reverse (dig k) hne hc
      have hpos : 0 < valOf C (d :: rest) := by
        rw [hrs] at hc hci
        exact valOf_pos dig hval d rest (hci.2.1 d (by simp)) (hc.2.2 d (rest ++ [dig k]) (by simp) (by simp))
      rw [← hrs] at hpos ⊢
      rw [digitsOf_ge dig _ (by omega)]
      have e1 : (valOf C rs.reverse * 10 + k) / 10 = valOf C rs.reverse := by omega
      have e2 : (valOf C rs.reverse * 10 + k) % 10 = k := by omega
      rw [e1, e2, ih hci]

theorem digitsOf_valOf (dig : Nat → α) (hval : ∀ k, k < 10 → C.val (dig k) = k) (ds : List α)
    (hc : Canonical dig ds) : digitsOf dig (valOf C ds) = ds := by
  have := digitsOf_valOf_rev (C := C) dig hval ds.reverse (by simpa using hc)
  simpa using this

/-- `digitsOf` produces canonical strings (so the hypothesis of `digitsOf_valOf` is exactly the image of `format`) -/
theorem digitsOf_canonical (dig : Nat → α) (hinj : ∀ k, 0 < k → k < 10 → dig k ≠ dig 0) (n : Nat) :
    Canonical dig (digitsOf dig n) := by
  induction n using Nat.strongRecOn with
  | _ n ih =>
    by_cases h : n < 10
    · rw [digitsOf_lt dig n h]
      exact ⟨by simp, fun c hc => ⟨n, h, by simpa using hc⟩, fun c rest e hr => by simp at e; exact absurd e.2 hr⟩
    · rw [digitsOf_ge dig n (by omega)]
      obtain ⟨i1, i2, i3⟩ := ih (n / 10) (by omega)
      refine ⟨by simp, ?_, ?_⟩
      · intro c hc
        simp at hc
        rcases hc with hc | rfl
        · exact i2 c hc
        · exact ⟨n % 10, Nat.mod_lt _ (by omega), rfl⟩
      · intro c rest e hr
        cases hd : digitsOf dig (n / 10) with
        | nil => exact absurd hd i1
        | cons d rest' =>
          rw [hd] at e
          simp at e
          obtain ⟨rfl, _⟩ := e
          by_cases hr' : rest' = []
          · subst hr'
            by_cases h10 : n / 10 < 10
            · rw [digitsOf_lt dig _ h10] at hd
              simp at hd
              rw [← hd]
              exact hinj _ (by omega) h10
            · rw [digitsOf_ge dig _ (by omega)] at hd
              have hl := congrArg List.length hd
              simp at hl
              exact absurd hl (ih (n / 10 / 10) (by omega)).1
          · exact i3 d rest' hd hr'

/-- … and formats back to itself: for EVERY well-formed id whose version is written canonically -/
theorem format_parse' (h : ClsOK C) (dig : Nat → α) (hval : ∀ k, k < 10 → C.val (dig k) = k)
    (s n ds : List α) (hw : WellFormed C s n ds) (hc : Canonical dig ds) :
    parse C s = .ok (n, valOf C ds) ∧ format C dig n (valOf C ds) = s := by
  refine ⟨parse_wellFormed h s n ds hw, ?_⟩
  rw [format, digitsOf_valOf dig hval ds hc]
  exact hw.1.symm

/-- the same starting from a successful parse -/
theorem format_parse_of_parse (dig : Nat → α) (hval : ∀ k, k < 10 → C.val (dig k) = k)
    (s n ds : List α) (v : Nat) (hp : parse C s = .ok (n, v)) (hs : s = n ++ C.dash :: C.vee :: ds)
    (hc : Canonical dig ds) : format C dig n v = s := by
  obtain ⟨ds', ⟨hs', _, _⟩, hv⟩ := parse_ok_wellFormed s n v hp
  have : ds' = ds := by
    rw [hs'] at hs
    have := List.append_cancel_left hs
    simpa using this
  subst this
  rw [format, hv, digitsOf_valOf dig hval ds' hc]
  exact hs'.symm

/-! ### the registry: exact errors, lookups preserved by later registrations -/
variable {κ ν : Type} [DecidableEq κ]

theorem register_dup_refused_exact (dig : Nat → α) (r : Registry α κ ν) (id n : List α) (v : Nat) (ep : String)
    (kw : List (κ × ν)) (hp : parse C id = .ok (n, v)) (hin : format C dig n v ∈ registered r) :
    register C dig r id ep kw = .error (.alreadyRegistered (format C dig n v)) := by
  have : (List.map (fun x => x.fst) r).contains (format C dig n v) = true := by
    simpa [registered] using hin
  unfold register
  rw [hp]
  simp only []
  rw [if_pos this]

theorem register_parse_error (dig : Nat → α) (r : Registry α κ ν) (id : List α) (e : ParseError) (ep : String)
    (kw : List (κ × ν)) (hp : parse C id = .error e) : register C dig r id ep kw = .error (.parse e) := by
  unfold register; rw [hp]

theorem make_unknown_exact (dig : Nat → α) (r : Registry α κ ν) (id n : List α) (v : Nat) (kw : List (κ × ν))
    (hp : parse C id = .ok (n, v)) (hnot : r.lookup (format C dig n v) = none) :
    make C dig r id kw = .error (.unregistered (format C dig n v) (registered r)) := by
  unfold make; simp only [hp, hnot]; rfl

theorem make_parse_error (dig : Nat → α) (r : Registry α κ ν) (id : List α) (e : ParseError)
    (kw : List (κ × ν)) (hp : parse C id = .error e) : make C dig r id kw = .error (.parse e) := by
  unfold make; rw [hp]

/-- `make(id, **kw)` on ANY registry in which the (normalised) id is registered -/
theorem make_registered (dig : Nat → α) (r : Registry α κ ν) (id n : List α) (v : Nat) (kw : List (κ × ν))
    (sp : EnvSpec κ ν) (hp : parse C id = .ok (n, v)) (hl : r.lookup (format C dig n v) = some sp) :
    make C dig r id kw = .ok (sp.entryPoint, mergeKwargs sp.kwargs kw) := by
  unfold make; simp only [hp, hl]

theorem lookup_append_left {β} (r x : List (List α × β)) (k : List α) (v : β) (h : r.lookup k = some v) :
    (r ++ x).lookup k = some v := by
  induction r with
  | nil => simp [List.lookup] at h
  | cons p r ih =>
    simp only [List.cons_append, List.lookup] at h ⊢
    split
    · rename_i hk; simp only [hk] at h; exact h
    · rename_i hk; simp only [hk] at h; exact ih h

/-- a later successful registration never changes what an already registered id maps to -/
theorem register_preserves_lookup (dig : Nat → α) (r r' : Registry α κ ν) (id : List α) (ep : String)
    (kw : List (κ × ν)) (h : register C dig r id ep kw = .ok r') (k : List α) (sp : EnvSpec κ ν)
    (hl : r.lookup k = some sp) : r'.lookup k = some sp := by
  obtain ⟨n, v, _, _, rfl⟩ := register_ok dig r r' id ep kw h
  exact lookup_append_left r _ k sp hl

/-- any sequence of later `register` calls (refused ones leave the registry as it is) -/
def runRegs (dig : Nat → α) (r : Registry α κ ν) : List (List α × String × List (κ × ν)) → Registry α κ ν
  | [] => r
  | (id, ep, kw) :: rest =>
    match register C dig r id ep kw with
    | .ok r' => runRegs dig r' rest
    | .error _ => runRegs dig r rest

theorem runRegs_preserves_lookup (dig : Nat → α) (r : Registry α κ ν) (calls : List (List α × String × List (κ × ν)))
    (k : List α) (sp : EnvSpec κ ν) (hl : r.lookup k = some sp) : (runRegs (C := C) dig r calls).lookup k = some sp := by
  induction calls generalizing r with
  | nil => exact hl
  | cons c calls ih =>
    obtain ⟨id, ep, kw⟩ := c
    simp only [runRegs]
    split
    · rename_i r' hr
      exact ih r' (register_preserves_lookup dig r r' id ep kw hr k sp hl)
    · exact ih r hl

/-- `make(id)` after `register(id, ep, **reg)` and ANY later history of `register` calls builds `ep` with the
registered kwargs overridden by the caller's -/
theorem make_after_register_later (dig : Nat → α) (r r' : Registry α κ ν) (id : List α) (ep : String)
    (reg kw : List (κ × ν)) (hr : register C dig r id ep reg = .ok r')
    (calls : List (List α × String × List (κ × ν))) :
    make C dig (runRegs (C := C) dig r' calls) id kw = .ok (ep, mergeKwargs reg kw) := by
  obtain ⟨n, v, hp, hnot, rfl⟩ := register_ok dig r r' id ep reg hr
  have h1 := lookup_append_of_not_mem r (format C dig n v) ({ entryPoint := ep, kwargs := reg } : EnvSpec κ ν)
    (by simpa [registered] using hnot)
  exact make_registered dig _ id n v kw _ hp (runRegs_preserves_lookup dig _ calls _ _ h1)

end Reg
