-- Root of the `JumanjiModel` library: everything that `lake build` must check.
import JumanjiModel.Prim.Idx
import JumanjiModel.Prim.Grid
import JumanjiModel.Core.TimeStep
import JumanjiModel.Bridge.All
