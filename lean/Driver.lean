/-
Line-protocol driver: one JSON request per line on stdin → one JSON reply per line on stdout.
Request: {"op": "<name>", ...}.  Reply: {"ok": <json>} or {"err": "<message>"}.
Imports model + bridge files only (no Mathlib), so it builds as a native executable.
-/
import JumanjiModel.Bridge.All
open Lean

def handle (line : String) : String :=
  match Json.parse line with
  | .error e => (Json.mkObj [("err", .str s!"parse: {e}")]).compress
  | .ok j =>
    match j.getObjValAs? String "op" with
    | .error _ => (Json.mkObj [("err", .str "bad-op: no op field")]).compress
    | .ok op =>
      match Jb.allOps.lookup op with
      | none => (Json.mkObj [("err", .str s!"bad-op: unknown op {op}")]).compress
      | some f =>
        match f j with
        | .ok r => (Json.mkObj [("ok", r)]).compress
        | .error e => (Json.mkObj [("err", .str e)]).compress

partial def loop (hin : IO.FS.Stream) (hout : IO.FS.Stream) : IO Unit := do
  let line ← hin.getLine
  if line.isEmpty then return ()
  let t := line.trimAscii.toString
  if t.isEmpty then loop hin hout else
  hout.putStrLn (handle t)
  hout.flush
  loop hin hout

def main : IO Unit := do
  loop (← IO.getStdin) (← IO.getStdout)
