import sys,re
src=open(sys.argv[1]).read()
src=re.sub(r'"""(.|\n)*?"""','""""""',src)
out=[l for l in src.split('\n') if l.strip() and not l.strip().startswith('#') and l.strip()!='""""""']
print('\n'.join(out))
